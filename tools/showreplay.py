#!/usr/bin/env python3
import json, sys
r = json.load(open(sys.argv[1]))
c = r['case']
print({k: v for k, v in c.items() if k not in ('ops', 'config')})
if 'config' in c:
    print({k: v for k, v in c['config'].items() if k != 'particles'}, 'Nparticles=', len(c['config']['particles']))
for o in c.get('ops', []):
    print('  ', {k: (v if k not in ('ps', 'p') else '..') for k, v in o.items()})
print(r['violation'])
