#!/venv/bin/python
"""debug helper: run cases of a property in-process.  tools/run1.py C06 0 20 [quick|thorough]"""
import sys, os, json, time
sys.path.insert(0, os.path.dirname(os.path.dirname(os.path.abspath(__file__))))
from harness import build, engine, props
from harness.rng import run_rng
pid = sys.argv[1]
mod = props.load(pid)
bd = build.ensure(mod.VARIANT)
build.activate(mod.VARIANT)
if hasattr(mod, "prepare"):
    mod.prepare(bd)
tier = sys.argv[4] if len(sys.argv) > 4 else "quick"
seed = int(os.environ.get("VERIF_SEED", "0"))
tmp = "/tmp/run1-%s" % pid
os.makedirs(tmp, exist_ok=True)
os.chdir(tmp)
known = [f["key"] for f in engine.load_known() if f["property"] == pid and f.get("status") == "known"]
ctx = engine.Ctx(None, known, tier, bd)
ctx.tmpdir = tmp
for i in range(int(sys.argv[2]), int(sys.argv[3])):
    case = mod.generate(run_rng(seed, pid, i), tier, i)
    t = time.time()
    r = mod.execute(case, ctx)
    vs = [(v["oracle"], v["clause"], str(v["detail"])[:300], v.get("key")) for v in r.get("viols", [])]
    print(i, round(time.time() - t, 3), "sig" if r.get("sig") else "-", r.get("sim"), r.get("probes"), vs[:2])
