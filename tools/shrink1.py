#!/venv/bin/python
"""tools/shrink1.py C05 17459 : run one generated case in isolation, shrink it, write the replay file"""
import sys, os, json
sys.path.insert(0, os.path.dirname(os.path.dirname(os.path.abspath(__file__))))
from harness import build, engine, props
from harness.rng import run_rng
pid, idx = sys.argv[1], int(sys.argv[2])
mod = props.load(pid)
bd = build.ensure(mod.VARIANT); build.activate(mod.VARIANT)
known = [f["key"] for f in engine.load_known() if f["property"] == pid and f.get("status") == "known"]
seed = int(os.environ.get("VERIF_SEED", "0"))
case = mod.generate(run_rng(seed, pid, idx), "quick", idx)
r = engine.run_isolated(mod, case, known, bd)
v = engine.first_unknown(r.get("viols"), known)
print("first violation:", v)
if v:
    small, tries = engine.shrink_case(mod, case, engine.vclass(v), known, bd, "quick", budget_s=120, viol=v)
    r1 = engine.run_isolated(mod, small, known, bd)
    v1 = engine.first_unknown(r1.get("viols"), known)
    p = engine.write_replay(mod, seed, idx, small, v1, engine.digest_of(v1))
    print("shrunk with", tries, "executions ->", p)
