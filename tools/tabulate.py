#!/venv/bin/python
"""tools/tabulate.py C05 [budget_s] : run a batch and tabulate violations by (integrator/mode, key)"""
import sys, os, collections, json
sys.path.insert(0, os.path.dirname(os.path.dirname(os.path.abspath(__file__))))
from harness import build, engine, props
from harness.rng import run_rng
pid = sys.argv[1]; budget = float(sys.argv[2]) if len(sys.argv) > 2 else 30
mod = props.load(pid)
bd = build.ensure(mod.VARIANT); build.activate(mod.VARIANT)
if hasattr(mod, "prepare"): mod.prepare(bd)
known = [f["key"] for f in engine.load_known() if f["property"] == pid and f.get("status") == "known"]
seed = int(os.environ.get("VERIF_SEED", "0"))
pr = engine.run_pool(mod, seed, "quick", budget, 10**9, known, bd, run_cap_s=getattr(mod, "RUN_CAP_S", 60))
c = collections.Counter(); ex = {}
for r in pr.results:
    for v in r.get("viols") or []:
        case = mod.generate(run_rng(seed, pid, r["index"]), "quick", r["index"])
        tag = case.get("config", {}).get("integrator") or case.get("mode") or "?"
        k = (tag, v["key"], v["clause"][:60])
        c[k] += 1
        ex.setdefault(k, (r["index"], str(v["detail"])[:260]))
print("runs", len(pr.results), "deaths", pr.deaths[:5], "timeouts", sorted(pr.timeouts)[:10], "harness_errors", len(pr.harness_errors))
for he in pr.harness_errors[:2]: print(he)
for k, n in c.most_common(40):
    print(n, k, ex[k])
