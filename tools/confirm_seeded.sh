#!/bin/bash
# tools/confirm_seeded.sh <agent-worktree-name> <property> <seeded-id>
# Confirms an agent-produced change in a fresh scratch worktree (demo passes without / fails with the change, existing suite
# unchanged), runs the property's quick check against it, stores everything under /verif/seeded/<id>/.
set -u
src=/tmp/wt/$1; prop=$2; id=$3
dst=/verif/seeded/$id; mkdir -p $dst
cp $src/MUTANT/patch.diff $src/MUTANT/demo.py $dst/ 2>/dev/null; cp $src/MUTANT/NOTES.md $dst/NOTES.md 2>/dev/null
w=/tmp/wt/verify-$id
git -C /repo worktree add -q --detach $w HEAD || exit 2
cd $w
build(){ /venv/bin/python setup.py -q build_ext --inplace >/dev/null 2>&1; rm -rf build; }
build
PYTHONPATH=$w timeout 600 /venv/bin/python $dst/demo.py > $dst/demo_unchanged.log 2>&1; rc0=$?
git apply $dst/patch.diff || { echo "PATCH DOES NOT APPLY"; cd /; git -C /repo worktree remove --force $w; exit 3; }
build
PYTHONPATH=$w timeout 600 /venv/bin/python $dst/demo.py > $dst/demo_changed.log 2>&1; rc1=$?
suite=$(PYTHONPATH=$w timeout 1800 /venv/bin/python -m pytest -q -p no:cacheprovider --timeout=900 --continue-on-collection-errors rebound/tests 2>&1 | tail -1)
cd /verif
out=$(VERIF_REPO=$w VERIF_BUILD_ROOT=$w/.verif-build VERIF_OUT=$w/.verif-out VERIF_BUDGET_S=${BUDGET:-40} timeout 3000 ./vcheck $prop quick 2>&1)
rcc=$?
viol=$(echo "$out" | grep -m1 "^violation:" | cut -c1-300)
det=$(echo "$out" | grep -A1 -m1 "^violation:" | tail -1 | cut -c1-400)
echo "$id $prop: demo unchanged rc=$rc0, changed rc=$rc1; suite: $suite; check exit=$rcc $viol"
python3 - "$dst" "$prop" "$id" "$rc0" "$rc1" "$suite" "$rcc" "$viol" "$det" <<'PY'
import json, sys, os
dst, prop, id_, rc0, rc1, suite, rcc, viol, det = sys.argv[1:10]
notes = open(os.path.join(dst, "NOTES.md")).read() if os.path.exists(os.path.join(dst, "NOTES.md")) else ""
meta = {"id": id_, "property": prop, "origin": "independent sub-agent given only the property text and a scratch worktree",
        "confirmed": {"demo_exit_unchanged_tree": int(rc0), "demo_exit_changed_tree": int(rc1), "existing_suite_with_change": suite.strip()},
        "check": {"command": "VERIF_REPO=<scratch worktree with patch applied> ./vcheck %s quick" % prop, "exit": int(rcc), "detected": int(rcc) == 1, "first_violation": viol, "detail": det},
        "needs_to_manifest": "see NOTES.md"}
json.dump(meta, open(os.path.join(dst, "meta.json"), "w"), indent=1)
PY
git -C /repo worktree remove --force $w
