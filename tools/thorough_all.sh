#!/bin/bash
# tools/thorough_all.sh [seed] : run every thorough tier once, one line per property plus violations
cd "$(dirname "$0")/.."
seed=${1:-0}
for p in C05 C06 C07 C08 C09 C13 C14 C15 C17 C19; do
  out=$(VERIF_SEED=$seed timeout 3000 ./vcheck $p thorough 2>&1)
  echo "seed=$seed rc=$? $(echo "$out" | tail -1)"
  echo "$out" | grep -A2 "^violation\|HARNESS-ERROR\|TIMEOUT" | cut -c1-600
done
