#!/bin/bash
# tools/recheck.sh : thorough tiers of the given properties, then a quick soak over the given seeds
cd "$(dirname "$0")/.."
for p in ${1:-C05 C15 C19}; do
  out=$(VERIF_SEED=${3:-0} timeout 3000 ./vcheck $p thorough 2>&1)
  echo "thorough rc=$? $(echo "$out" | tail -1)"
  echo "$out" | grep -A2 "^violation\|HARNESS-ERROR" | cut -c1-600
done
tools/soak.sh 'C05 C06 C07 C08 C09 C13 C14 C15 C17 C19' "${2:-10 11 12 13 14 15}" 40
