#!/bin/bash
# tools/soak.sh "<props>" "<seeds>" [budget]  : run quick checks over several seeds, print one line per (prop, seed) plus violations
props=${1:-"C05 C06 C07 C08 C09 C13 C14 C15 C17 C19"}; seeds=${2:-"11 12 13"}; budget=${3:-60}
cd "$(dirname "$0")/.."
for s in $seeds; do for p in $props; do
  out=$(VERIF_SEED=$s VERIF_BUDGET_S=$budget timeout 1800 ./vcheck $p quick 2>&1)
  echo "seed=$s $(echo "$out" | tail -1)"
  echo "$out" | grep -A2 "^violation\|HARNESS-ERROR\|TIMEOUT" | cut -c1-600
done; done
