/* Read-only oracles that need the true C layout (tree walk etc.). */
#define _GNU_SOURCE
#include <stdio.h>
#include <stdlib.h>
#include <string.h>
#include <stdint.h>
#include "rebound.h"
#include "tree.h"
#define EXP __attribute__((visibility("default")))
EXP int verif_sizeof_simulation(void){ return (int)sizeof(struct reb_simulation); }

/* velocity dependent drag: a C additional_forces callback the harness attaches (and re-attaches
 * after a restore, as the property's proviso requires). */
EXP void verif_force_drag(struct reb_simulation* r){
    const int N = r->N;
    for (int i = 0; i < N; i++){
        r->particles[i].ax -= 1e-3 * r->particles[i].vx;
        r->particles[i].ay -= 1e-3 * r->particles[i].vy;
        r->particles[i].az -= 1e-3 * r->particles[i].vz;
    }
}

/* ------------------------------------------------------------------------------------------
 * Recording heartbeat: logs every step boundary the integrate loop reaches (called once before
 * the loop and after every step, always before reb_check_exit), and executes a small event
 * script keyed by steps_done (used by C08/C09/C05 to inject events *between* steps).
 * ---------------------------------------------------------------------------------------- */
struct hb_rec { uint64_t steps_done; double t, dt, dt_last_done; int status; unsigned int N; };
#define HB_MAX 8192
static struct hb_rec hb_log[HB_MAX];
static int hb_n = 0;
static int hb_overflow = 0;
typedef void (*hb_user_t)(struct reb_simulation* r, int boundary_index);
static hb_user_t hb_user = NULL;
static uint64_t hb_stop_at = (uint64_t)-1;      /* set status=USER at this steps_done */
EXP void verif_hb_reset(void){ hb_n = 0; hb_overflow = 0; hb_stop_at = (uint64_t)-1; }
EXP void verif_hb_set_user(hb_user_t f){ hb_user = f; }
EXP void verif_hb_stop_at(uint64_t s){ hb_stop_at = s; }
EXP int verif_hb_count(void){ return hb_n; }
EXP int verif_hb_overflow(void){ return hb_overflow; }
EXP int verif_hb_get(int i, uint64_t* steps_done, double* t, double* dt, double* dt_last_done, int* status, unsigned int* N){
    if (i < 0 || i >= hb_n) return -1;
    *steps_done = hb_log[i].steps_done; *t = hb_log[i].t; *dt = hb_log[i].dt; *dt_last_done = hb_log[i].dt_last_done;
    *status = hb_log[i].status; *N = hb_log[i].N;
    return 0;
}
EXP void verif_heartbeat(struct reb_simulation* r){
    if (hb_n < HB_MAX){
        struct hb_rec* h = &hb_log[hb_n];
        h->steps_done = r->steps_done; h->t = r->t; h->dt = r->dt; h->dt_last_done = r->dt_last_done; h->status = r->status; h->N = r->N;
        hb_n++;
    }else hb_overflow = 1;
    if (hb_user) hb_user(r, hb_n - 1);
    if (r->steps_done == hb_stop_at) r->status = REB_STATUS_USER;
}

/* counting free_particle_ap callback (C14) */
static int free_ap_calls = 0;
static uint32_t free_ap_last_hash = 0;
EXP void verif_free_ap(struct reb_particle* p){ free_ap_calls++; free_ap_last_hash = p->hash; }
EXP int verif_free_ap_take(uint32_t* last_hash){ int n = free_ap_calls; *last_hash = free_ap_last_hash; free_ap_calls = 0; return n; }
