/* Read-only oracles that need the true C layout (tree walk etc.). */
#define _GNU_SOURCE
#include <stdio.h>
#include <stdlib.h>
#include <string.h>
#include <stdint.h>
#include <stdarg.h>
#include "rebound.h"
#include "tree.h"
#define EXP __attribute__((visibility("default")))
EXP int verif_sizeof_simulation(void){ return (int)sizeof(struct reb_simulation); }

/* velocity dependent drag: a C additional_forces callback the harness attaches (and re-attaches
 * after a restore, as the property's proviso requires). */
EXP void verif_force_drag(struct reb_simulation* r){
    const int N = r->N;
    for (int i = 0; i < N; i++){
        r->particles[i].ax -= 1e-3 * r->particles[i].vx;
        r->particles[i].ay -= 1e-3 * r->particles[i].vy;
        r->particles[i].az -= 1e-3 * r->particles[i].vz;
    }
}

/* pre/post_timestep_modifications callback: a weak velocity damping on every body but the first.  The
 * library synchronises before calling it and must pick the edit up afterwards (recalculate flags). */
EXP void verif_ptm_damp(struct reb_simulation* r){
    const int N = r->N - r->N_var;
    for (int i = 1; i < N; i++){
        r->particles[i].vx *= 1. - 1e-5;
        r->particles[i].vy *= 1. - 1e-5;
        r->particles[i].vz *= 1. - 1e-5;
    }
}

/* ------------------------------------------------------------------------------------------
 * Recording heartbeat: logs every step boundary the integrate loop reaches (called once before
 * the loop and after every step, always before reb_check_exit), and executes a small event
 * script keyed by steps_done (used by C08/C09/C05 to inject events *between* steps).
 * ---------------------------------------------------------------------------------------- */
struct hb_rec { uint64_t steps_done; double t, dt, dt_last_done; int status; unsigned int N; };
#define HB_MAX 8192
static struct hb_rec hb_log[HB_MAX];
static int hb_n = 0;
static int hb_overflow = 0;
typedef void (*hb_user_t)(struct reb_simulation* r, int boundary_index);
static hb_user_t hb_user = NULL;
static uint64_t hb_stop_at = (uint64_t)-1;      /* set status=USER at this steps_done */
EXP void verif_hb_reset(void){ hb_n = 0; hb_overflow = 0; hb_stop_at = (uint64_t)-1; }
EXP void verif_hb_set_user(hb_user_t f){ hb_user = f; }
EXP void verif_hb_stop_at(uint64_t s){ hb_stop_at = s; }
EXP int verif_hb_count(void){ return hb_n; }
EXP int verif_hb_overflow(void){ return hb_overflow; }
EXP int verif_hb_get(int i, uint64_t* steps_done, double* t, double* dt, double* dt_last_done, int* status, unsigned int* N){
    if (i < 0 || i >= hb_n) return -1;
    *steps_done = hb_log[i].steps_done; *t = hb_log[i].t; *dt = hb_log[i].dt; *dt_last_done = hb_log[i].dt_last_done;
    *status = hb_log[i].status; *N = hb_log[i].N;
    return 0;
}
EXP void verif_heartbeat(struct reb_simulation* r){
    if (hb_n < HB_MAX){
        struct hb_rec* h = &hb_log[hb_n];
        h->steps_done = r->steps_done; h->t = r->t; h->dt = r->dt; h->dt_last_done = r->dt_last_done; h->status = r->status; h->N = r->N;
        hb_n++;
    }else hb_overflow = 1;
    if (hb_user) hb_user(r, hb_n - 1);
    if (r->steps_done == hb_stop_at) r->status = REB_STATUS_USER;
}

/* a heartbeat that updates the simulation in two phases (as a user heartbeat doing accretion or removing escapers does): between the phases the
 * state is not a step-boundary state. The mass of the last particle is disturbed and put back bit for bit, with some work in between so that the
 * scheduler gets pre-emption points inside the window. The integration loop must keep this invisible to served snapshots. */
extern void verif_yield_point(void) __attribute__((weak));    /* sched variant only: this file is not compiled with trace-pc, so the window needs explicit pre-emption points */
EXP void verif_heartbeat_twophase(struct reb_simulation* r){
    verif_heartbeat(r);
    const int N = r->N - r->N_var;
    if (N < 2) return;
    const double old = r->particles[N-1].m;
    r->particles[N-1].m = old * 1.5 + 1e-3;
    volatile double sink = 0.;
    for (int i = 0; i < 12; i++){ sink += r->particles[i % N].x * 1e-300; if (verif_yield_point) verif_yield_point(); }
    r->particles[N-1].m = old;
}

/* counting free_particle_ap callback (C14) */
static int free_ap_calls = 0;
static uint32_t free_ap_last_hash = 0;
EXP void verif_free_ap(struct reb_particle* p){ free_ap_calls++; free_ap_last_hash = p->hash; }
EXP int verif_free_ap_take(uint32_t* last_hash){ int n = free_ap_calls; *last_hash = free_ap_last_hash; free_ap_calls = 0; return n; }

/* ------------------------------------------------------------------------------------------
 * Read-only tree walker (C15, C05): canonical dump and invariant check.
 * ---------------------------------------------------------------------------------------- */
#include <math.h>
struct tw { const struct reb_simulation* r; int* seen; int n; char* msg; int msgcap; int bad; uint64_t h; int leaves; int cells; int check_mass; };
static void tw_fail(struct tw* w, const char* fmt, ...){
    w->bad++;
    if (w->msg && w->msg[0] == 0){
        va_list ap; va_start(ap, fmt); vsnprintf(w->msg, w->msgcap, fmt, ap); va_end(ap);
    }
}
static inline void tw_mix(struct tw* w, uint64_t v){ w->h ^= v + 0x9E3779B97F4A7C15ULL + (w->h << 6) + (w->h >> 2); }
static inline uint64_t dbits(double d){ uint64_t u; memcpy(&u, &d, 8); return u; }
/* returns number of leaves below node */
static int tw_walk(struct tw* w, const struct reb_treecell* node, const struct reb_treecell* parent, int o, int depth){
    const struct reb_simulation* r = w->r;
    w->cells++;
    tw_mix(w, (uint64_t)depth * 8 + o); tw_mix(w, dbits(node->x)); tw_mix(w, dbits(node->y)); tw_mix(w, dbits(node->z)); tw_mix(w, dbits(node->w));
    if (parent){
        double ew = parent->w / 2.;
        double ex = parent->x + ew / 2. * ((o >> 0) % 2 == 0 ? 1. : -1);
        double ey = parent->y + ew / 2. * ((o >> 1) % 2 == 0 ? 1. : -1);
        double ez = parent->z + ew / 2. * ((o >> 2) % 2 == 0 ? 1. : -1);
        if (node->w != ew || node->x != ex || node->y != ey || node->z != ez) tw_fail(w, "cell geometry does not match its octant (depth %d oct %d)", depth, o);
    }
    if (node->pt >= 0){
        w->leaves++;
        tw_mix(w, (uint64_t)node->pt + 1000003);
        if (node->pt >= (int)r->N){ tw_fail(w, "leaf refers to particle %d >= N=%u", node->pt, r->N); return 1; }
        if (w->seen[node->pt]++) tw_fail(w, "particle %d sits in more than one leaf", node->pt);
        const struct reb_particle* p = &r->particles[node->pt];
        if (p->c != node) tw_fail(w, "particle %d back-pointer does not point to its leaf", node->pt);
        /* containment up to the rounding of the library's own cell assignment: the root-box / octant arithmetic
         * (floor((x+L/2)/root_size), x < centre) may place a particle that is one rounding error outside a border in the adjacent cell */
        #define TOL(a, b, w) (1e-15 * (fabs(a) + fabs(b) + (w)) * 4.)
        if (!isnan(p->y) && (fabs(p->x - node->x) > node->w / 2. + TOL(p->x, node->x, node->w) || fabs(p->y - node->y) > node->w / 2. + TOL(p->y, node->y, node->w) || fabs(p->z - node->z) > node->w / 2. + TOL(p->z, node->z, node->w)))
            tw_fail(w, "leaf cell (w=%g at %g %g %g) does not contain particle %d (%g %g %g)", node->w, node->x, node->y, node->z, node->pt, p->x, p->y, p->z);
        for (int i = 0; i < 8; i++) if (node->oct[i]) tw_fail(w, "leaf has children");
        if (w->check_mass){
            if (node->m != p->m || node->mx != p->x || node->my != p->y || node->mz != p->z) tw_fail(w, "leaf mass/com differs from its particle %d", node->pt);
        }
        return 1;
    }
    int below = 0, nchild = 0;
    double m = 0, mx = 0, my = 0, mz = 0;
    for (int i = 0; i < 8; i++){
        const struct reb_treecell* d = node->oct[i];
        if (!d) continue;
        nchild++;
        below += tw_walk(w, d, node, i, depth + 1);
        m += d->m; mx += d->mx * d->m; my += d->my * d->m; mz += d->mz * d->m;
    }
    if (nchild == 0) tw_fail(w, "empty inner node at depth %d", depth);
    if (node->pt != -below) tw_fail(w, "inner node counter %d but %d leaves below (depth %d)", node->pt, below, depth);
    if (below < 2 && nchild) tw_fail(w, "inner node with a single leaf below was not derefined (depth %d)", depth);
    if (w->check_mass && nchild){
        double tol = 1e-12;
        if (fabs(node->m - m) > tol * fabs(m) + 1e-300) tw_fail(w, "cell mass %g != sum over children %g", node->m, m);
        if (m > 0){
            mx /= m; my /= m; mz /= m;
            double s = node->w;
            if (fabs(node->mx - mx) > 1e-9 * s || fabs(node->my - my) > 1e-9 * s || fabs(node->mz - mz) > 1e-9 * s) tw_fail(w, "cell centre of mass differs from children (depth %d)", depth);
        }
    }
    return below;
}
/* returns number of problems (first message in msg); out[0]=leaves out[1]=cells out[2..3]=shape hash */
EXP int verif_tree_check(struct reb_simulation* r, int check_mass, char* msg, int msgcap, uint64_t* out){
    struct tw w; memset(&w, 0, sizeof(w));
    w.r = r; w.msg = msg; w.msgcap = msgcap; w.check_mass = check_mass;
    if (msg && msgcap) msg[0] = 0;
    out[0] = out[1] = out[2] = 0;
    if (!r->tree_root){ return 0; }
    w.seen = calloc(r->N + 1, sizeof(int));
    for (int i = 0; i < r->N_root; i++){
        const struct reb_treecell* root = r->tree_root[i];
        tw_mix(&w, (uint64_t)i + 77);
        if (!root) continue;
        if (root->w != r->root_size) tw_fail(&w, "root cell width %g != root_size %g", root->w, r->root_size);
        tw_walk(&w, root, NULL, 0, 0);
    }
    for (unsigned int i = 0; i < r->N; i++){
        if (w.seen[i] == 0 && !isnan(r->particles[i].y)) tw_fail(&w, "particle %u (of %u) is in no leaf", i, r->N);
    }
    free(w.seen);
    out[0] = w.leaves; out[1] = w.cells; out[2] = w.h;
    return w.bad;
}

/* counterfactual probe for the "integrate() clobbers dt_last_done on entry" finding: the next time the
 * recording heartbeat is called for boundary 0 (i.e. right after reb_simulation_integrate reset the
 * field and before the first step) put the persisted value back. */
static double hb_dld_value = 0; static int hb_dld_armed = 0;
EXP void verif_hb_restore_dt_last_done(double v){ hb_dld_value = v; hb_dld_armed = 1; }
EXP void verif_heartbeat_dld(struct reb_simulation* r){
    if (hb_dld_armed){ r->dt_last_done = hb_dld_value; hb_dld_armed = 0; }
}

/* additional_forces callback that validates the tree at the moment it has just been used by the
 * gravity walk (C15).  First failure message and call count are kept for the harness. */
static char treecb_msg[400]; static int treecb_bad = 0, treecb_calls = 0, treecb_mass = 0;
EXP void verif_treecb_reset(int check_mass){ treecb_msg[0] = 0; treecb_bad = 0; treecb_calls = 0; treecb_mass = check_mass; }
EXP int verif_treecb_result(char* msg, int cap, int* calls){ if (msg && cap){ strncpy(msg, treecb_msg, cap - 1); msg[cap - 1] = 0; } *calls = treecb_calls; return treecb_bad; }
EXP void verif_force_treecheck(struct reb_simulation* r){
    char m[400]; uint64_t out[4];
    treecb_calls++;
    int bad = verif_tree_check(r, treecb_mass, m, sizeof(m), out);
    if (bad && !treecb_bad){ treecb_bad = bad; snprintf(treecb_msg, sizeof(treecb_msg), "step %lu t=%g: %s", (unsigned long)r->steps_done, r->t, m); }
}
