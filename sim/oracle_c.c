/* Read-only oracles that need the true C layout (tree walk etc.). */
#define _GNU_SOURCE
#include <stdio.h>
#include <stdlib.h>
#include <string.h>
#include <stdint.h>
#include "rebound.h"
#include "tree.h"
#define EXP __attribute__((visibility("default")))
EXP int verif_sizeof_simulation(void){ return (int)sizeof(struct reb_simulation); }

/* velocity dependent drag: a C additional_forces callback the harness attaches (and re-attaches
 * after a restore, as the property's proviso requires). */
EXP void verif_force_drag(struct reb_simulation* r){
    const int N = r->N;
    for (int i = 0; i < N; i++){
        r->particles[i].ax -= 1e-3 * r->particles[i].vx;
        r->particles[i].ay -= 1e-3 * r->particles[i].vy;
        r->particles[i].az -= 1e-3 * r->particles[i].vz;
    }
}
