/* Deterministic baton-passing scheduler, simulated mutex / sleep / join / cancel, fake network and
 * C worker programs (DESIGN.md section 3.4).  Linked only into the "sched" variant.
 *
 * Every thread that executes librebound code is a real pthread, but exactly one of them holds the
 * baton at any time; all others are parked on their own semaphore.  Which thread runs next is
 * decided only here, from one SplitMix64 state (or from an explicit switch list in replay mode).
 * Pre-emption points: every basic block of librebound (-fsanitize-coverage=trace-pc), every function
 * entry (-finstrument-functions) and every wrapped synchronisation call.  The shim itself is not
 * instrumented, so its functions are atomic with respect to scheduling.
 */
#define _GNU_SOURCE
#include <stdio.h>
#include <stdlib.h>
#include <string.h>
#include <stdint.h>
#include <stdarg.h>
#include <errno.h>
#include <pthread.h>
#include <semaphore.h>
#include <unistd.h>
#include <sys/socket.h>
#include <sys/types.h>
#include "rebound.h"

#define EXP __attribute__((visibility("default")))
#define HID __attribute__((visibility("hidden")))

extern int64_t verif_clock_us;          /* seams.c: the simulated clock */
extern int64_t verif_clock_step_us;

int __real_pthread_create(pthread_t*, const pthread_attr_t*, void* (*)(void*), void*);
int __real_pthread_join(pthread_t, void**);
int __real_close(int);
void* __real_malloc(size_t);
void __real_free(void*);

/* ------------------------------------------------------------------------------------------ */
enum { ST_UNUSED = 0, ST_RUNNABLE, ST_MUTEX, ST_SLEEP, ST_ACCEPT, ST_JOIN, ST_DONE };
#define MAXT 16
struct vthread {
    int state;
    sem_t sem;
    pthread_t real;
    void* (*fn)(void*);
    void* arg;
    void* ret;
    void* wait_obj;        /* mutex address / joined thread index */
    int64_t wake_us;
    int stalled;                       /* sleeping because the scheduler parked it (not because it called usleep) */
    int cancel;
    int joined;
    const char* where;     /* current librebound function (from the function-entry hook) */
};
static struct vthread T[MAXT];
static int nthreads = 0;
static volatile int armed = 0;
static int current = -1;
static __thread int my_tid = -1;

/* decisions */
static uint64_t rng_state;
static double switch_p = 0.02;
static int policy = 0;                 /* 0 uniform random, 1 biased windows, 2 replay (explicit list), 3 none */
static uint64_t tick = 0, tick_cap = 50000000ULL;
static uint64_t n_yields = 0, n_switches = 0, n_blocks = 0, n_clock_jumps = 0, n_mutex_contended = 0, n_mutex_handover_while_integrating = 0;
struct decision { uint64_t tick; int from, to; };
static struct decision* dlog = NULL; static int dlog_n = 0, dlog_cap = 0;
static struct decision* replay = NULL; static int replay_n = 0, replay_i = 0;
static uint64_t sched_digest = 1469598103934665603ULL;
static int bias_active = 0;            /* set while some thread is inside a named window function */
static double stall_p = 0.0; static int64_t stall_us = 0; static uint64_t n_stalls = 0, n_trylock_busy = 0;   /* 'slow or stalled node' fault */
static double bias_p = 0.3;

/* simulated mutexes */
#define MAXM 32
static struct { void* addr; int owner; } M[MAXM];
static int nm = 0;

/* network */
#define MAXC 16
struct vclient { uint64_t at_tick; int window; char req[256]; int client_fd; int server_fd; int delivered; uint64_t delivered_tick; int status_at_delivery; };
static struct vclient C[MAXC];
static int nclients = 0;
static int listen_fd = -1, listen_closed = 0;
static struct reb_simulation* watched = NULL;   /* for window-biased client arrival */
static int arrival_window_hit[8];

static inline uint64_t rnd(void){
    uint64_t z = (rng_state += 0x9E3779B97F4A7C15ULL);
    z = (z ^ (z >> 30)) * 0xBF58476D1CE4E5B9ULL;
    z = (z ^ (z >> 27)) * 0x94D049BB133111EBULL;
    return z ^ (z >> 31);
}
static inline double rnd01(void){ return (rnd() >> 11) * (1.0 / 9007199254740992.0); }
static inline void dig(uint64_t v){ sched_digest ^= v; sched_digest *= 1099511628211ULL; }

static void die(int code, const char* fmt, ...){
    va_list ap; va_start(ap, fmt);
    fprintf(stderr, "VERIF-SCHED: ");
    vfprintf(stderr, fmt, ap);
    fprintf(stderr, " tick=%lu current=%d\n", (unsigned long)tick, current);
    for (int i = 0; i < nthreads; i++) fprintf(stderr, "   T%d state=%d wait=%p wake=%ld where=%s\n", i, T[i].state, T[i].wait_obj, (long)T[i].wake_us, T[i].where ? T[i].where : "?");
    for (int i = 0; i < nclients; i++) fprintf(stderr, "   client%d at_tick=%lu window=%d delivered=%d dtick=%lu\n", i, (unsigned long)C[i].at_tick, C[i].window, C[i].delivered, (unsigned long)C[i].delivered_tick);
    if (watched) fprintf(stderr, "   watched status=%d t=%g steps=%lu\n", watched->status, watched->t, (unsigned long)watched->steps_done);
    va_end(ap);
    fflush(stderr);
    _exit(code);
}

static void log_decision(int from, int to){
    if (dlog_n == dlog_cap){ dlog_cap = dlog_cap ? dlog_cap * 2 : 256; dlog = realloc(dlog, sizeof(struct decision) * dlog_cap); }
    dlog[dlog_n].tick = tick; dlog[dlog_n].from = from; dlog[dlog_n].to = to; dlog_n++;
    dig(tick * 31 + from * 7 + to);
}

static int client_due(struct vclient* c){
    if (c->delivered) return 0;
    if (c->window == 0) return tick >= c->at_tick;
    /* window-biased arrival: due once the watched simulation is in the named phase (and at_tick has passed) */
    if (tick < c->at_tick || !watched) return 0;
    int st = watched->status;
    switch (c->window){
        case 1: return st == REB_STATUS_LAST_STEP;
        case 2: return st >= 0;                       /* loop has exited: final synchronise / wrap-up */
        case 3: return st == REB_STATUS_PAUSED;
        case 4: return T[0].where && strstr(T[0].where, "synchronize") != NULL;
        default: return 1;
    }
}
static int any_client_due(void){
    for (int i = 0; i < nclients; i++) if (client_due(&C[i])) return 1;
    return 0;
}

static void deliver_due(void){
    int64_t now = verif_clock_us;
    for (int i = 0; i < nthreads; i++){
        if (T[i].state == ST_SLEEP && T[i].wake_us <= now) T[i].state = ST_RUNNABLE;
        if (T[i].state == ST_ACCEPT && (listen_closed || T[i].cancel || any_client_due())) T[i].state = ST_RUNNABLE;
    }
}

static void handoff(int next){
    int me = my_tid;
    if (next == me) return;
    n_switches++;
    log_decision(me, next);
    current = next;
    sem_post(&T[next].sem);
    sem_wait(&T[me].sem);
}

static int pick_runnable(int exclude){
    int cand[MAXT], n = 0;
    for (int i = 0; i < nthreads; i++) if (i != exclude && T[i].state == ST_RUNNABLE) cand[n++] = i;
    if (n == 0) return -1;
    if (policy == 2 || policy == 3) return cand[0];
    return cand[rnd() % n];
}

static void block_self(int state);
/* called with the baton; may hand it over */
HID void verif_yield_point(void){
    if (!armed || my_tid < 0 || my_tid != current) return;
    n_yields++;
    tick++;
    verif_clock_us += 1;
    if (tick > tick_cap) die(87, "TICK-CAP");
    deliver_due();
    int to = -1;
    if (policy == 2){
        while (replay_i < replay_n && replay[replay_i].tick < tick) replay_i++;
        if (replay_i < replay_n && replay[replay_i].tick == tick){
            int want = replay[replay_i].to;
            replay_i++;
            if (want >= 0 && want < nthreads && want != my_tid && T[want].state == ST_RUNNABLE) to = want;
        }
    }else if (policy != 3){
        double p = (policy == 1 && bias_active) ? bias_p : switch_p;
        if (rnd01() < p) to = pick_runnable(my_tid);
        if (stall_p > 0.0 && nthreads > 1){
            /* stalled thread: the running thread is taken off the CPU for stall_us of simulated time (as a loaded machine would do), far more
             * likely while somebody else is waiting for it (blocked on a mutex it may hold, or polling in a sleep loop) */
            int waited_for = 0;
            for (int k = 0; k < nthreads; k++) if (k != my_tid && (T[k].state == ST_MUTEX || (T[k].state == ST_SLEEP && !T[k].stalled))) waited_for = 1;
            double sp = waited_for ? stall_p * 300.0 : stall_p;
            if (rnd01() < sp){
                n_stalls++;
                T[my_tid].wake_us = verif_clock_us + stall_us;
                T[my_tid].stalled = 1;
                block_self(ST_SLEEP);
                T[my_tid].stalled = 0;
                return;
            }
        }
    }
    if (to >= 0) handoff(to);
}

/* mark self blocked in 'state' and run others until somebody makes us runnable again */
static void block_self(int state){
    int me = my_tid;
    n_blocks++;
    T[me].state = state;
    for (;;){
        deliver_due();
        int next = -1;
        if (T[me].state == ST_RUNNABLE && policy >= 2) next = me;
        if (next < 0) next = pick_runnable(-1);
        if (next < 0){
            /* nothing runnable: discrete-event jump to the next wake-up or client arrival */
            int64_t best = -1;
            for (int i = 0; i < nthreads; i++) if (T[i].state == ST_SLEEP && (best < 0 || T[i].wake_us < best)) best = T[i].wake_us;
            uint64_t best_tick = 0; int have_tick = 0;
            for (int i = 0; i < nclients; i++) if (!C[i].delivered && C[i].window == 0 && (!have_tick || C[i].at_tick < best_tick)){ best_tick = C[i].at_tick; have_tick = 1; }
            int accept_waiting = 0;
            for (int i = 0; i < nthreads; i++) if (T[i].state == ST_ACCEPT) accept_waiting = 1;
            if (best >= 0){
                if (best > verif_clock_us){ verif_clock_us = best; n_clock_jumps++; }
                continue;
            }
            if (have_tick && accept_waiting){
                if (best_tick > tick){ verif_clock_us += (int64_t)(best_tick - tick); tick = best_tick; n_clock_jumps++; }
                continue;
            }
            die(86, "DEADLOCK");
        }
        if (next == me){ T[me].state = ST_RUNNABLE; return; }
        tick++;
        handoff(next);
        if (T[me].state == ST_RUNNABLE) return;
        /* woken without being runnable cannot happen: handoff only targets runnable threads */
    }
}

/* ------------------------------------------------------------------------------------------
 * instrumentation hooks (must be hidden: otherwise libc's no-op stub wins symbol resolution)
 * ---------------------------------------------------------------------------------------- */
HID void __sanitizer_cov_trace_pc(void){ if (armed) verif_yield_point(); }

static const char* window_names[] = {"reb_simulation_synchronize", "reb_simulation_save_to_stream", "reb_check_exit", "reb_collision_search",
                                     "reb_simulation_copy_with_messages", "reb_integrator_whfast_synchronize", NULL};
static void* window_addr[8];
static int window_n = -1;
#include <dlfcn.h>
static void windows_init(void){
    window_n = 0;
    for (int i = 0; window_names[i]; i++){
        void* a = dlsym(RTLD_DEFAULT, window_names[i]);
        if (a) window_addr[window_n++] = a;
    }
}
static __thread int in_window = 0;
HID void __cyg_profile_func_enter(void* fn, void* site){
    if (!armed || my_tid < 0) return;
    if (window_n < 0) windows_init();
    for (int i = 0; i < window_n; i++) if (window_addr[i] == fn){
        in_window++; bias_active++;
        if (i == 0 || i == 5) T[my_tid].where = "synchronize"; else if (i == 1) T[my_tid].where = "save_to_stream"; else if (i == 2) T[my_tid].where = "check_exit"; else T[my_tid].where = "window";
    }
    verif_yield_point();
}
HID void __cyg_profile_func_exit(void* fn, void* site){
    if (!armed || my_tid < 0) return;
    if (window_n < 0) return;
    for (int i = 0; i < window_n; i++) if (window_addr[i] == fn){
        if (in_window > 0){ in_window--; bias_active--; }
        if (in_window == 0) T[my_tid].where = "other";
    }
}

/* ------------------------------------------------------------------------------------------
 * pthread seams
 * ---------------------------------------------------------------------------------------- */
static void thread_finish(void* ret){
    int me = my_tid;
    T[me].ret = ret;
    T[me].state = ST_DONE;
    for (int i = 0; i < nthreads; i++) if (T[i].state == ST_JOIN && T[i].wait_obj == (void*)(intptr_t)(me + 1)) T[i].state = ST_RUNNABLE;
    deliver_due();
    int next = pick_runnable(me);
    while (next < 0){
        int64_t best = -1;
        for (int i = 0; i < nthreads; i++) if (T[i].state == ST_SLEEP && (best < 0 || T[i].wake_us < best)) best = T[i].wake_us;
        if (best < 0) die(86, "DEADLOCK at thread exit");
        if (best > verif_clock_us) verif_clock_us = best;
        deliver_due();
        next = pick_runnable(me);
    }
    log_decision(me, next);
    current = next;
    my_tid = -1;
    sem_post(&T[next].sem);
}

static void* trampoline(void* p){
    int me = (int)(intptr_t)p;
    my_tid = me;
    sem_wait(&T[me].sem);
    void* ret = T[me].fn(T[me].arg);
    thread_finish(ret);
    return ret;
}

static int vthread_create(pthread_t* t, void* (*fn)(void*), void* arg){
    if (nthreads >= MAXT) die(88, "too many threads");
    int id = nthreads++;
    memset(&T[id], 0, sizeof(T[id]));
    sem_init(&T[id].sem, 0, 0);
    T[id].fn = fn; T[id].arg = arg; T[id].state = ST_RUNNABLE; T[id].where = "start";
    int rc = __real_pthread_create(&T[id].real, NULL, trampoline, (void*)(intptr_t)id);
    if (rc) die(88, "pthread_create failed");
    if (t) *t = T[id].real;
    return id;
}

int __wrap_pthread_create(pthread_t* t, const pthread_attr_t* attr, void* (*fn)(void*), void* arg){
    if (!armed || my_tid < 0) return __real_pthread_create(t, attr, fn, arg);
    vthread_create(t, fn, arg);
    verif_yield_point();
    return 0;
}

static int find_thread(pthread_t t){
    for (int i = 0; i < nthreads; i++) if (pthread_equal(T[i].real, t)) return i;
    return -1;
}

static int vthread_join(int id, void** ret){
    if (T[id].state != ST_DONE){
        T[my_tid].wait_obj = (void*)(intptr_t)(id + 1);
        block_self(ST_JOIN);
    }
    if (T[id].state != ST_DONE) die(89, "join returned before thread finished");
    if (!T[id].joined){ __real_pthread_join(T[id].real, NULL); T[id].joined = 1; }
    if (ret) *ret = T[id].ret;
    return 0;
}

int __wrap_pthread_join(pthread_t t, void** ret){
    if (!armed || my_tid < 0) return __real_pthread_join(t, ret);
    int id = find_thread(t);
    if (id < 0) return ESRCH;
    verif_yield_point();
    return vthread_join(id, ret);
}

int __wrap_pthread_cancel(pthread_t t){
    if (!armed || my_tid < 0) return pthread_cancel(t);
    int id = find_thread(t);
    if (id < 0) return ESRCH;
    T[id].cancel = 1;
    deliver_due();
    verif_yield_point();
    return 0;
}
int __wrap_pthread_setcancelstate(int s, int* o){ if (o) *o = 0; return 0; }
int __wrap_pthread_setcanceltype(int s, int* o){ if (o) *o = 0; return 0; }

static int find_mutex(void* a){
    for (int i = 0; i < nm; i++) if (M[i].addr == a) return i;
    if (nm >= MAXM) die(88, "too many mutexes");
    M[nm].addr = a; M[nm].owner = -1;
    return nm++;
}
int __wrap_pthread_mutex_init(pthread_mutex_t* m, const pthread_mutexattr_t* a){
    if (!armed || my_tid < 0) return pthread_mutex_init(m, a);
    int i = find_mutex(m); M[i].owner = -1;
    return 0;
}
int __wrap_pthread_mutex_lock(pthread_mutex_t* m){
    if (!armed || my_tid < 0) return pthread_mutex_lock(m);
    verif_yield_point();
    int i = find_mutex(m);
    int contended = 0;
    while (M[i].owner != -1){
        if (M[i].owner == my_tid) die(90, "recursive lock of a non-recursive mutex");
        contended = 1;
        T[my_tid].wait_obj = m;
        block_self(ST_MUTEX);
    }
    if (contended) n_mutex_contended++;
    M[i].owner = my_tid;
    return 0;
}
int __wrap_pthread_mutex_trylock(pthread_mutex_t* m){
    if (!armed || my_tid < 0) return pthread_mutex_trylock(m);
    verif_yield_point();
    int i = find_mutex(m);
    if (M[i].owner != -1){ n_trylock_busy++; return 16 /* EBUSY */; }
    M[i].owner = my_tid;
    return 0;
}
int __wrap_pthread_mutex_unlock(pthread_mutex_t* m){
    if (!armed || my_tid < 0) return pthread_mutex_unlock(m);
    int i = find_mutex(m);
    if (M[i].owner != my_tid) die(90, "unlock of a mutex not held");
    M[i].owner = -1;
    for (int k = 0; k < nthreads; k++) if (T[k].state == ST_MUTEX && T[k].wait_obj == m){ T[k].state = ST_RUNNABLE; n_mutex_handover_while_integrating++; }
    verif_yield_point();
    return 0;
}

int __wrap_usleep(useconds_t us){
    if (!armed || my_tid < 0){ return 0; }     /* never really sleep in verification builds */
    T[my_tid].wake_us = verif_clock_us + (int64_t)us;
    block_self(ST_SLEEP);
    return 0;
}

/* ------------------------------------------------------------------------------------------
 * fake network: the real reb_server_start runs unmodified
 * ---------------------------------------------------------------------------------------- */
int __wrap_socket(int d, int t, int p){
    if (!armed || my_tid < 0) return -1;
    listen_fd = 100000; listen_closed = 0;
    return listen_fd;
}
int __wrap_setsockopt(int fd, int l, int o, const void* v, socklen_t n){ return 0; }
int __wrap_bind(int fd, const struct sockaddr* a, socklen_t l){ return 0; }
int __wrap_listen(int fd, int b){ return 0; }
int __wrap_access(const char* p, int m){ return 0; }
int __wrap_system(const char* c){ return 0; }

int __wrap_accept(int fd, struct sockaddr* a, socklen_t* l){
    if (!armed || my_tid < 0) return -1;
    for (;;){
        verif_yield_point();
        if (listen_closed) return -1;
        if (T[my_tid].cancel){ /* deferred cancellation acted upon at this cancellation point */
            thread_finish(PTHREAD_CANCELED);
            pthread_exit(PTHREAD_CANCELED);
        }
        for (int i = 0; i < nclients; i++) if (client_due(&C[i])){
            int sv[2];
            if (socketpair(AF_UNIX, SOCK_STREAM, 0, sv)) die(91, "socketpair failed");
            ssize_t w = write(sv[1], C[i].req, strlen(C[i].req));
            (void)w;
            shutdown(sv[1], SHUT_WR);
            C[i].server_fd = sv[0]; C[i].client_fd = sv[1]; C[i].delivered = 1; C[i].delivered_tick = tick;
            C[i].status_at_delivery = watched ? watched->status : 99;
            if (C[i].window >= 0 && C[i].window < 8) arrival_window_hit[C[i].window]++;
            dig(0xC11E27 + i * 131 + tick);
            return sv[0];
        }
        block_self(ST_ACCEPT);
    }
}
int __wrap_close(int fd){
    if (armed && fd == listen_fd && listen_fd >= 0){
        listen_closed = 1;
        deliver_due();
        return 0;
    }
    if (armed) for (int i = 0; i < nclients; i++) if (C[i].delivered && C[i].server_fd == fd) return 0;  /* already closed by fclose(stream) */
    return __real_close(fd);
}

/* server.c talks on stdout; keep verification output clean (sched variant only) */
int __wrap_printf(const char* fmt, ...){ return 0; }
int __wrap_puts(const char* s){ return 0; }
int __wrap_putchar(int c){ return c; }

/* ------------------------------------------------------------------------------------------
 * control API for the harness
 * ---------------------------------------------------------------------------------------- */
EXP void verif_sched_begin(uint64_t seed, int pol, double p, double bp, uint64_t cap){
    for (int i = 0; i < nthreads; i++) if (T[i].state != ST_UNUSED) sem_destroy(&T[i].sem);
    memset(T, 0, sizeof(T)); nthreads = 0; nm = 0;
    rng_state = seed; policy = pol; switch_p = p; bias_p = bp; tick = 0; tick_cap = cap ? cap : 50000000ULL;
    n_yields = n_switches = n_blocks = n_clock_jumps = n_mutex_contended = n_mutex_handover_while_integrating = 0;
    dlog_n = 0; replay_i = 0; sched_digest = 1469598103934665603ULL; bias_active = 0;
    stall_p = 0.0; stall_us = 0; n_stalls = 0; n_trylock_busy = 0;
    listen_fd = -1; listen_closed = 0;
    memset(arrival_window_hit, 0, sizeof(arrival_window_hit));
    int id = nthreads++;
    sem_init(&T[id].sem, 0, 0);
    T[id].state = ST_RUNNABLE; T[id].real = pthread_self(); T[id].where = "main";
    my_tid = id; current = id;
    armed = 1;
}
EXP void verif_sched_set_stall(double p, int64_t us){ stall_p = p; stall_us = us; }
EXP uint64_t verif_sched_stalls(void){ return n_stalls; }
EXP void verif_sched_end(void){
    armed = 0;
    my_tid = -1; current = -1;
    for (int i = 0; i < nclients; i++){
        if (C[i].delivered && C[i].client_fd >= 0){ __real_close(C[i].client_fd); C[i].client_fd = -1; }
    }
    nclients = 0; watched = NULL;
}
EXP void verif_sched_set_replay(const uint64_t* ticks, const int* tos, int n){
    free(replay); replay = malloc(sizeof(struct decision) * (n ? n : 1)); replay_n = n; replay_i = 0;
    for (int i = 0; i < n; i++){ replay[i].tick = ticks[i]; replay[i].to = tos[i]; replay[i].from = -1; }
}
EXP void verif_sched_watch(struct reb_simulation* r){ watched = r; }
EXP int verif_sched_add_client(uint64_t at_tick, int window, const char* req){
    if (nclients >= MAXC) return -1;
    struct vclient* c = &C[nclients];
    memset(c, 0, sizeof(*c));
    c->at_tick = at_tick; c->window = window; c->client_fd = -1; c->server_fd = -1;
    strncpy(c->req, req, sizeof(c->req) - 1);
    return nclients++;
}
EXP int verif_sched_client_info(int i, int* fd, int* delivered, uint64_t* dtick, int* status){
    if (i < 0 || i >= nclients) return -1;
    *fd = C[i].client_fd; *delivered = C[i].delivered; *dtick = C[i].delivered_tick; *status = C[i].status_at_delivery;
    return 0;
}
EXP void verif_sched_stats(uint64_t* o){
    o[0] = tick; o[1] = n_yields; o[2] = n_switches; o[3] = n_blocks; o[4] = n_clock_jumps; o[5] = n_mutex_contended;
    o[6] = n_mutex_handover_while_integrating; o[7] = sched_digest; o[8] = (uint64_t)dlog_n; o[9] = (uint64_t)nthreads;
    for (int i = 0; i < 6; i++) o[10 + i] = (uint64_t)arrival_window_hit[i];
}
EXP int verif_sched_decisions(uint64_t* ticks, int* froms, int* tos, int cap){
    int n = dlog_n < cap ? dlog_n : cap;
    for (int i = 0; i < n; i++){ ticks[i] = dlog[i].tick; froms[i] = dlog[i].from; tos[i] = dlog[i].to; }
    return dlog_n;
}

/* ------------------------------------------------------------------------------------------
 * C worker programs (C19 part A): each worker owns one simulation loaded from a serialised image and
 * executes a small op script; after every op it records a digest of the serialised state
 * (pointer members masked, wall-time fields dropped).
 * ---------------------------------------------------------------------------------------- */
enum { W_STEPS = 1, W_INTEGRATE = 2, W_COPY = 3, W_SAVELOAD = 4, W_ARCHIVE = 5, W_DIFF = 6, W_SYNC = 7, W_CREATE_FREE = 8 };
struct wop { int kind; int n; double x; };
struct wprog {
    const char* image; size_t image_len;      /* serialised initial simulation */
    int flags;                                 /* 1 merge resolver, 2 hard-sphere resolver, 4 drag force */
    const struct wop* ops; int nops;
    const char* archive_path;
    uint64_t* digests; int ndig, capdig;       /* out */
    int error;
};
extern void verif_force_drag(struct reb_simulation* r);

static uint64_t fnv(uint64_t h, const unsigned char* p, size_t n){ for (size_t i = 0; i < n; i++){ h ^= p[i]; h *= 1099511628211ULL; } return h; }
static uint64_t digest_sim(struct reb_simulation* r){
    char* buf = NULL; size_t size = 0;
    reb_simulation_save_to_stream(r, &buf, &size);
    uint64_t h = 1469598103934665603ULL;
    size_t pos = 64;
    while (pos + sizeof(struct reb_binary_field) <= size){
        struct reb_binary_field f; memcpy(&f, buf + pos, sizeof(f));
        pos += sizeof(f);
        if (f.type == 9999) break;
        if (pos + f.size > size) break;
        if (f.type == 126 || f.type == 127){ pos += f.size; continue; }
        unsigned char* q = (unsigned char*)buf + pos;
        if (f.type == 85 || f.type == 104 || f.type == 399){
            for (size_t k = 0; k + sizeof(struct reb_particle) <= f.size; k += sizeof(struct reb_particle)){
                struct reb_particle* p = (struct reb_particle*)(q + k);
                p->c = NULL; p->ap = NULL; p->sim = NULL;
                memset((char*)&p->hash + sizeof(p->hash), 0, (char*)&p->ap - ((char*)&p->hash + sizeof(p->hash)));   /* struct padding (uninitialised stack bytes) */
            }
        }else if (f.type == 86){
            for (size_t k = 0; k + sizeof(struct reb_variational_configuration) <= f.size; k += sizeof(struct reb_variational_configuration))
                ((struct reb_variational_configuration*)(q + k))->sim = NULL;
        }
        h = fnv(h, (unsigned char*)&f.type, 4);
        h = fnv(h, q, f.size);
        pos += f.size;
    }
    free(buf);
    return h;
}
static void attach(struct reb_simulation* r, int flags){
    if (flags & 1) r->collision_resolve = reb_collision_resolve_merge;
    if (flags & 2) r->collision_resolve = reb_collision_resolve_hardsphere;
    if (flags & 4){ r->additional_forces = verif_force_drag; r->force_is_velocity_dependent = 1; }
}
static struct reb_simulation* load_image(const char* img, size_t len, int flags){
    struct reb_simulationarchive* sa = calloc(1, sizeof(struct reb_simulationarchive));
    enum reb_simulation_binary_error_codes w = 0;
    char* copy = malloc(len); memcpy(copy, img, len);
    reb_simulationarchive_init_from_buffer_with_messages(sa, copy, len, NULL, &w);
    struct reb_simulation* r = reb_simulation_create();
    reb_simulation_create_from_simulationarchive_with_messages(r, sa, -1, &w);
    reb_simulationarchive_free(sa);
    free(copy);
    r->save_messages = 1;
    attach(r, flags);
    return r;
}
static void push_digest(struct wprog* p, uint64_t d){
    if (p->ndig < p->capdig) p->digests[p->ndig] = d;
    p->ndig++;
}
static void* worker_main(void* arg){
    struct wprog* p = (struct wprog*)arg;
    struct reb_simulation* r = load_image(p->image, p->image_len, p->flags);
    push_digest(p, digest_sim(r));
    for (int i = 0; i < p->nops; i++){
        const struct wop* o = &p->ops[i];
        switch (o->kind){
            case W_STEPS: reb_simulation_steps(r, o->n); break;
            case W_INTEGRATE: reb_simulation_integrate(r, r->t + o->x); break;
            case W_SYNC: reb_simulation_synchronize(r); break;
            case W_COPY: { struct reb_simulation* c = reb_simulation_copy(r); if (c){ attach(c, p->flags); reb_simulation_free(r); r = c; } else p->error |= 1; } break;
            case W_SAVELOAD: {
                char* buf = NULL; size_t size = 0;
                reb_simulation_save_to_stream(r, &buf, &size);
                struct reb_simulation* c = load_image(buf, size, p->flags);
                free(buf);
                reb_simulation_free(r); r = c;
            } break;
            case W_ARCHIVE: {
                reb_simulation_save_to_file(r, p->archive_path);
                struct reb_simulationarchive* sa = reb_simulationarchive_create_from_file(p->archive_path);
                if (sa){
                    push_digest(p, (uint64_t)sa->nblobs);
                    struct reb_simulation* c = reb_simulation_create_from_simulationarchive(sa, -1);
                    reb_simulationarchive_free(sa);
                    if (c){ c->save_messages = 1; attach(c, p->flags); reb_simulation_free(r); r = c; } else p->error |= 2;
                } else p->error |= 4;
            } break;
            case W_DIFF: { struct reb_simulation* c = reb_simulation_copy(r); if (c){ attach(c, p->flags); push_digest(p, (uint64_t)reb_simulation_diff(r, c, 2)); reb_simulation_free(c); } } break;
            case W_CREATE_FREE: { struct reb_simulation* c = reb_simulation_create(); reb_simulation_add_fmt(c, "m", 1.0); reb_simulation_add_fmt(c, "m a e", 1e-3, 1.0 + 0.1 * o->n, 0.1); c->rand_seed = 1234 + o->n; /* the default seed reads the clock, which concurrency legitimately changes */ c->integrator = o->n % 2 ? REB_INTEGRATOR_WHFAST : REB_INTEGRATOR_IAS15; reb_simulation_steps(c, 3); push_digest(p, digest_sim(c)); reb_simulation_free(c); } break;
        }
        /* drain messages so that queues do not grow */
        if (r->messages){ for (int k = 0; k < 10; k++) if (r->messages[k]){ free(r->messages[k]); r->messages[k] = NULL; } }
        push_digest(p, digest_sim(r));
    }
    reb_simulation_free(r);
    return NULL;
}

/* run K programs as threads under the scheduler (concurrent != 0) or one after another */
EXP int verif_run_workers(struct wprog* progs, int K, int concurrent){
    if (!concurrent){
        for (int k = 0; k < K; k++) worker_main(&progs[k]);
        return 0;
    }
    int ids[MAXT];
    for (int k = 0; k < K; k++) ids[k] = vthread_create(NULL, worker_main, &progs[k]);
    for (int k = 0; k < K; k++) vthread_join(ids[k], NULL);
    return 0;
}
