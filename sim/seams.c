/* Seam shim linked into the verification builds of librebound (see DESIGN.md section 3).
 *
 * Only references made from librebound's own objects are redirected here (ld --wrap), so the
 * Python interpreter, numpy and libc keep their real I/O, clock and allocator.
 *
 *   stdio   : fopen / fwrite / fclose   -> write log (program-order list of (stream, offset, bytes))
 *             + an observer called when librebound opens a file for writing
 *   clock   : gettimeofday, getpid      -> simulated microsecond clock owned by the harness
 *   heap    : malloc/calloc/realloc/free-> registry allocator: canaries, garbage fill,
 *                                          always-move realloc, poison + FIFO quarantine, audit
 *
 * Everything the shim itself needs from libc goes through __real_* so that it never observes
 * its own seams.  No function in this file draws random numbers or reads a real clock.
 */
#define _GNU_SOURCE
#include <stdio.h>
#include <sys/mman.h>
#include <stdlib.h>
#include <string.h>
#include <stdint.h>
#include <stdarg.h>
#include <sys/time.h>
#include <sys/types.h>
#include <unistd.h>

#define EXP __attribute__((visibility("default")))
#define HID __attribute__((visibility("hidden")))

void* __real_malloc(size_t);
void* __real_calloc(size_t, size_t);
void* __real_realloc(void*, size_t);
void __real_free(void*);
FILE* __real_fopen(const char*, const char*);
int __real_fclose(FILE*);
size_t __real_fwrite(const void*, size_t, size_t, FILE*);
int __real_gettimeofday(struct timeval*, void*);
pid_t __real_getpid(void);

/* ------------------------------------------------------------------------------------------
 * Simulated clock
 * ---------------------------------------------------------------------------------------- */
HID int64_t verif_clock_us = 1700000000LL * 1000000LL;   /* current simulated time */
HID int64_t verif_clock_step_us = 0;                     /* added on every gettimeofday call */
HID int verif_clock_real = 0;                            /* 1: pass through */
static uint64_t clock_calls = 0;

EXP void verif_clock_set(int64_t us, int64_t step_us){ verif_clock_us = us; verif_clock_step_us = step_us; }
static uint64_t clock_jumps = 0;
EXP void verif_clock_jump(int64_t us){ verif_clock_us += us; clock_jumps++; }
EXP int64_t verif_clock_get(void){ return verif_clock_us; }
EXP uint64_t verif_clock_calls(void){ return clock_calls; }
EXP void verif_clock_passthrough(int on){ verif_clock_real = on; }

int __wrap_gettimeofday(struct timeval* tv, void* tz){
    if (verif_clock_real) return __real_gettimeofday(tv, tz);
    clock_calls++;
    verif_clock_us += verif_clock_step_us;
    int64_t t = verif_clock_us;
    if (t < 0) t = 0;
    tv->tv_sec = t / 1000000;
    tv->tv_usec = t % 1000000;
    return 0;
}

pid_t __wrap_getpid(void){
    if (verif_clock_real) return __real_getpid();
    return 4242;
}

/* ------------------------------------------------------------------------------------------
 * Write log
 * ---------------------------------------------------------------------------------------- */
enum { EV_OPEN = 1, EV_WRITE = 2, EV_CLOSE = 3 };
struct wrec { int kind; int stream; int64_t off; int64_t len; unsigned char* data; char mode[8]; };
static struct wrec* wlog = NULL;
static int wlog_n = 0, wlog_cap = 0;
static uint64_t wlog_total = 0;
static int wlog_on = 0;
#define MAXTRACK 32
static FILE* trk_f[MAXTRACK];
static int trk_id[MAXTRACK];
static int trk_n = 0;
static int next_stream = 0;
typedef void (*fopen_observer_t)(const char* path, const char* mode);
static fopen_observer_t fopen_observer = NULL;
static int in_observer = 0;

static struct wrec* wlog_push(void){
    if (wlog_n == wlog_cap){
        wlog_cap = wlog_cap ? wlog_cap * 2 : 64;
        wlog = __real_realloc(wlog, sizeof(struct wrec) * wlog_cap);
    }
    struct wrec* w = &wlog[wlog_n++];
    wlog_total++;
    memset(w, 0, sizeof(*w));
    return w;
}

EXP void verif_wlog_enable(int on){ wlog_on = on; }
EXP void verif_wlog_reset(void){
    for (int i = 0; i < wlog_n; i++) __real_free(wlog[i].data);
    wlog_n = 0;
}
EXP int verif_wlog_count(void){ return wlog_n; }
EXP int verif_wlog_get(int i, int* kind, int* stream, int64_t* off, int64_t* len, unsigned char** data, char* mode){
    if (i < 0 || i >= wlog_n) return -1;
    *kind = wlog[i].kind; *stream = wlog[i].stream; *off = wlog[i].off; *len = wlog[i].len;
    *data = wlog[i].data; memcpy(mode, wlog[i].mode, 8);
    return 0;
}
EXP void verif_set_fopen_observer(fopen_observer_t cb){ fopen_observer = cb; }

FILE* __wrap_fopen(const char* path, const char* mode){
    int writing = (strchr(mode, 'w') || strchr(mode, '+') || strchr(mode, 'a')) ? 1 : 0;
    if (writing && fopen_observer && !in_observer){
        in_observer = 1;
        fopen_observer(path, mode);
        in_observer = 0;
    }
    FILE* f = __real_fopen(path, mode);
    if (f && writing && wlog_on && !in_observer && trk_n < MAXTRACK){
        trk_f[trk_n] = f; trk_id[trk_n] = next_stream++; trk_n++;
        struct wrec* w = wlog_push();
        w->kind = EV_OPEN; w->stream = trk_id[trk_n - 1];
        strncpy(w->mode, mode, 7);
    }
    return f;
}

static int trk_find(FILE* f){
    for (int i = 0; i < trk_n; i++) if (trk_f[i] == f) return i;
    return -1;
}

size_t __wrap_fwrite(const void* p, size_t sz, size_t n, FILE* f){
    int i = trk_find(f);
    if (i >= 0){
        int64_t off = ftello(f);
        size_t len = sz * n;
        struct wrec* w = wlog_push();
        w->kind = EV_WRITE; w->stream = trk_id[i]; w->off = off; w->len = (int64_t)len;
        w->data = __real_malloc(len ? len : 1);
        memcpy(w->data, p, len);
    }
    return __real_fwrite(p, sz, n, f);
}

int __wrap_fclose(FILE* f){
    int i = trk_find(f);
    if (i >= 0){
        struct wrec* w = wlog_push();
        w->kind = EV_CLOSE; w->stream = trk_id[i];
        trk_f[i] = trk_f[trk_n - 1]; trk_id[i] = trk_id[trk_n - 1]; trk_n--;
    }
    return __real_fclose(f);
}

/* ------------------------------------------------------------------------------------------
 * Hostile allocator
 *
 * block layout:   [ header 64 B | payload (size) | tail canary 64 B ]
 * levels: 0 pass-through, 1 canaries + garbage fill (no forced moves, normal free),
 *         2 full: always-move realloc, poison on free, FIFO quarantine.
 * Ownership is decided by an open-addressing pointer set, so blocks allocated under one level
 * may be released under another and foreign pointers (strdup, asprintf, libc) go to the real free.
 * ---------------------------------------------------------------------------------------- */
#define HDR 64
#define TAIL 64
#define MAGIC_LIVE 0x5645524946414c56ULL
#define MAGIC_FREE 0x5645524946465245ULL
#define CANARY 0xA5
#define FILL_MALLOC 0xCB
static int fill_malloc = FILL_MALLOC;   /* content of fresh malloc/realloc memory: a seam (verif_alloc_fill) */
#define FILL_FREE 0xFF
struct hdr {
    uint64_t magic;
    uint64_t size;
    struct hdr* prev;
    struct hdr* next;     /* live list, or quarantine FIFO */
    uint64_t serial;
    uint64_t maplen;      /* != 0: guard block, mmap'ed region of this length starting at 'base', last page PROT_NONE */
    unsigned char* base;
    unsigned char pad[HDR - 56];
};
/* guard blocks (level 3): the payload ends (up to 15 bytes of canary-filled slack) right in front of an inaccessible page, so that a READ or write
 * past the end of an array faults at once; released guard blocks are unmapped, so any later access faults as well */
static size_t guard_min = 0;
static uint64_t st_guard = 0, st_guard_fallback = 0;
#define VPAGE 4096UL
static int alloc_level = 0;
static struct hdr* live_head = NULL;
static struct hdr* q_head = NULL;   /* oldest */
static struct hdr* q_tail = NULL;
static uint64_t q_bytes = 0;
static uint64_t q_cap = 8ULL << 20;
static uint64_t serial = 0;
static uint64_t st_fill_alt = 0;
static uint64_t st_malloc = 0, st_free = 0, st_realloc = 0, st_moved = 0, st_foreign = 0, st_live = 0;
static char heap_err[512];
static int heap_err_n = 0;

static void herr(const char* fmt, ...){
    heap_err_n++;
    if (heap_err[0]) return; /* keep the first */
    va_list ap; va_start(ap, fmt);
    vsnprintf(heap_err, sizeof(heap_err), fmt, ap);
    va_end(ap);
}

/* pointer set: value = payload pointer, state in low bit of a parallel array */
static uintptr_t* set_k = NULL;   /* 0 empty, 1 tombstone, else key */
static uint64_t set_cap = 0, set_used = 0, set_tomb = 0;
static inline uint64_t hptr(uintptr_t p){ p ^= p >> 33; p *= 0xff51afd7ed558ccdULL; p ^= p >> 33; return p; }
static void set_rehash(uint64_t ncap){
    uintptr_t* old = set_k; uint64_t ocap = set_cap;
    set_k = __real_calloc(ncap, sizeof(uintptr_t)); set_cap = ncap; set_used = 0; set_tomb = 0;
    for (uint64_t i = 0; i < ocap; i++){
        uintptr_t k = old[i];
        if (k > 1){
            uint64_t j = hptr(k) & (set_cap - 1);
            while (set_k[j]) j = (j + 1) & (set_cap - 1);
            set_k[j] = k; set_used++;
        }
    }
    __real_free(old);
}
static void set_add(uintptr_t k){
    if (set_cap == 0) set_rehash(1 << 12);
    if ((set_used + set_tomb + 1) * 2 > set_cap) set_rehash(set_used * 4 > set_cap ? set_cap * 2 : set_cap);
    uint64_t j = hptr(k) & (set_cap - 1);
    while (set_k[j] > 1) j = (j + 1) & (set_cap - 1);
    if (set_k[j] == 1) set_tomb--;
    set_k[j] = k; set_used++;
}
static int set_has(uintptr_t k){
    if (set_cap == 0) return 0;
    uint64_t j = hptr(k) & (set_cap - 1);
    while (set_k[j]){
        if (set_k[j] == k) return 1;
        j = (j + 1) & (set_cap - 1);
    }
    return 0;
}
static void set_del(uintptr_t k){
    uint64_t j = hptr(k) & (set_cap - 1);
    while (set_k[j]){
        if (set_k[j] == k){ set_k[j] = 1; set_used--; set_tomb++; return; }
        j = (j + 1) & (set_cap - 1);
    }
}

static inline struct hdr* H(void* p){ return (struct hdr*)((unsigned char*)p - HDR); }
static inline unsigned char* P(struct hdr* h){ return (unsigned char*)h + HDR; }

static int check_canaries(struct hdr* h, const char* what){
    /* a damaged canary is reported once and then repaired, so that one overflow is one report */
    for (int i = 0; i < (int)sizeof(h->pad); i++) if (h->pad[i] != CANARY){
        herr("heap: front canary overwritten (%s) block size=%lu serial=%lu byte -%d", what, (unsigned long)h->size, (unsigned long)h->serial, (int)sizeof(h->pad) - i);
        memset(h->pad, CANARY, sizeof(h->pad));
        return 1;
    }
    unsigned char* t = P(h) + h->size;
    if (h->maplen){
        int slack = (int)((h->base + h->maplen - VPAGE) - t);
        for (int i = 0; i < slack; i++) if (t[i] != CANARY){
            herr("heap: slack behind guarded block overwritten (%s) block size=%lu serial=%lu byte +%d", what, (unsigned long)h->size, (unsigned long)h->serial, i);
            memset(t, CANARY, slack);
            return 1;
        }
        return 0;
    }
    for (int i = 0; i < TAIL; i++) if (t[i] != CANARY){
        herr("heap: tail canary overwritten (%s) block size=%lu serial=%lu byte +%d", what, (unsigned long)h->size, (unsigned long)h->serial, i);
        memset(t, CANARY, TAIL);
        return 1;
    }
    return 0;
}

static void* v_alloc(size_t size, int zero){
    struct hdr* h = NULL;
    if (guard_min && size >= guard_min){
        size_t sz16 = (size + 15) & ~(size_t)15;
        size_t maplen = ((HDR + sz16 + VPAGE - 1) & ~(VPAGE - 1)) + VPAGE;
        unsigned char* base = mmap(NULL, maplen, PROT_READ | PROT_WRITE, MAP_PRIVATE | MAP_ANONYMOUS, -1, 0);
        /* the kernel limits the number of mappings per process (vm.max_map_count): when it is exhausted the block silently falls back to the
         * canary layout instead of failing an allocation the library does not expect to fail */
        if (base != MAP_FAILED && mprotect(base + maplen - VPAGE, VPAGE, PROT_NONE) != 0){ munmap(base, maplen); base = MAP_FAILED; }
        if (base != MAP_FAILED){
            unsigned char* payload = base + maplen - VPAGE - sz16;
            h = (struct hdr*)(payload - HDR);
            h->maplen = maplen; h->base = base;
            st_guard++;
        }else st_guard_fallback++;
    }
    if (h == NULL){
        h = __real_malloc(HDR + size + TAIL);
        if (!h) return NULL;
        h->maplen = 0; h->base = NULL;
    }
    h->magic = MAGIC_LIVE; h->size = size; h->serial = ++serial;
    memset(h->pad, CANARY, sizeof(h->pad));
    memset(P(h), zero ? 0 : fill_malloc, size);
    if (!zero && fill_malloc != FILL_MALLOC) st_fill_alt++;
    if (h->maplen) memset(P(h) + size, CANARY, (h->base + h->maplen - VPAGE) - (P(h) + size));
    else memset(P(h) + size, CANARY, TAIL);
    h->prev = NULL; h->next = live_head;
    if (live_head) live_head->prev = h;
    live_head = h;
    set_add((uintptr_t)P(h));
    st_live++;
    return P(h);
}

static void live_unlink(struct hdr* h){
    if (h->prev) h->prev->next = h->next; else live_head = h->next;
    if (h->next) h->next->prev = h->prev;
    h->prev = h->next = NULL;
    st_live--;
}

static int check_poison(struct hdr* h){
    unsigned char* p = P(h);
    uint64_t n = h->size, i = 0;
    for (; i + 8 <= n; i += 8){
        uint64_t w; memcpy(&w, p + i, 8);
        if (w != 0xFFFFFFFFFFFFFFFFULL) break;
    }
    for (; i < n; i++) if (p[i] != FILL_FREE){
        herr("heap: write after free: block size=%lu serial=%lu offset=%lu", (unsigned long)h->size, (unsigned long)h->serial, (unsigned long)i);
        memset(p, FILL_FREE, n);
        return 1;
    }
    return 0;
}

static void q_evict(uint64_t keep){
    while (q_head && q_bytes > keep){
        struct hdr* h = q_head;
        q_head = h->next; if (!q_head) q_tail = NULL;
        q_bytes -= h->size + HDR + TAIL;
        check_poison(h); check_canaries(h, "quarantine");
        set_del((uintptr_t)P(h));
        h->magic = 0;
        __real_free(h);
    }
}

static void v_release(struct hdr* h){
    check_canaries(h, "free");
    live_unlink(h);
    if (h->maplen){
        set_del((uintptr_t)P(h));
        munmap(h->base, h->maplen);     /* any later access to the block faults */
        return;
    }
    if (alloc_level >= 2){
        h->magic = MAGIC_FREE;
        memset(P(h), FILL_FREE, h->size);
        h->next = NULL;
        if (q_tail) q_tail->next = h; else q_head = h;
        q_tail = h;
        q_bytes += h->size + HDR + TAIL;
        q_evict(q_cap);
    }else{
        set_del((uintptr_t)P(h));
        h->magic = 0;
        __real_free(h);
    }
}

void* __wrap_malloc(size_t size){
    st_malloc++;
    if (alloc_level == 0) return __real_malloc(size);
    return v_alloc(size, 0);
}
void* __wrap_calloc(size_t n, size_t size){
    st_malloc++;
    if (alloc_level == 0) return __real_calloc(n, size);
    return v_alloc(n * size, 1);
}
void __wrap_free(void* p){
    if (!p) return;
    st_free++;
    if (!set_has((uintptr_t)p)){ st_foreign++; __real_free(p); return; }
    struct hdr* h = H(p);
    if (h->magic == MAGIC_FREE){ herr("heap: double free of block size=%lu serial=%lu", (unsigned long)h->size, (unsigned long)h->serial); return; }
    if (h->magic != MAGIC_LIVE){ herr("heap: free of block with destroyed header"); return; }
    v_release(h);
}
void* __wrap_realloc(void* p, size_t size){
    st_realloc++;
    if (!p) return __wrap_malloc(size);
    if (!set_has((uintptr_t)p)){
        st_foreign++;
        return __real_realloc(p, size);   /* foreign or level-0 block: stays with libc */
    }
    struct hdr* h = H(p);
    if (h->magic != MAGIC_LIVE){ herr("heap: realloc of freed/invalid block size=%lu", (unsigned long)h->size); return NULL; }
    if (size == 0){ v_release(h); return NULL; }
    /* blocks we own always move (legal for any realloc) */
    void* q = v_alloc(size, 0);
    memcpy(q, p, h->size < size ? h->size : size);
    st_moved++;
    v_release(h);
    return q;
}

EXP void verif_alloc_level(int level){ alloc_level = level > 2 ? 2 : level; guard_min = level > 2 ? 128 : 0; }
EXP void verif_alloc_fill(int byte){ fill_malloc = byte & 0xff; }
EXP int verif_alloc_get_level(void){ return alloc_level; }
EXP uint64_t verif_alloc_guarded(void){ return st_guard; }
/* returns number of problems; message of the first one via verif_heap_error() */
EXP int verif_heap_audit(void){
    for (struct hdr* h = live_head; h; h = h->next){
        if (h->magic != MAGIC_LIVE){ herr("heap: live list header destroyed"); break; }
        check_canaries(h, "audit-live");
    }
    for (struct hdr* h = q_head; h; h = h->next){
        if (h->magic != MAGIC_FREE){ herr("heap: quarantine header destroyed"); break; }
        check_canaries(h, "audit-quarantine");
        check_poison(h);
    }
    return heap_err_n;
}
EXP const char* verif_heap_error(void){ return heap_err; }
EXP void verif_heap_clear_error(void){ heap_err[0] = 0; heap_err_n = 0; }
EXP void verif_heap_flush_quarantine(void){ q_evict(0); }
EXP void verif_heap_stats(uint64_t* out){
    out[0] = st_malloc; out[1] = st_free; out[2] = st_realloc; out[3] = st_moved; out[4] = st_foreign; out[5] = st_live; out[6] = q_bytes;
}
/* cumulative seam activity, for the evidence: [0] allocations served by the hostile allocator, [1] reallocs that were forced to move, [2] blocks
 * poisoned on free, [3] allocations filled with a non-default garbage byte, [4] clock reads answered by the simulated clock, [5] clock jumps,
 * [6] fwrite/fopen/fclose events logged, [7] allocations placed in front of a guard page */
EXP void verif_seam_counters(uint64_t* out){
    out[0] = alloc_level ? st_malloc : 0; out[1] = st_moved; out[2] = st_free; out[3] = st_fill_alt; out[4] = clock_calls; out[5] = clock_jumps; out[6] = wlog_total; out[7] = st_guard;
}
/* is p inside a live block we own?  (used by oracles: "pointer into particle storage") */
EXP int64_t verif_heap_block_size(void* p){
    if (!set_has((uintptr_t)p)) return -1;
    struct hdr* h = H(p);
    if (h->magic != MAGIC_LIVE) return -2;
    return (int64_t)h->size;
}
