"""Content-addressed build of the verification variants of librebound.

Every check calls ensure(variant) first.  The key is a hash over /repo/src, /repo/rebound
(python), /verif/sim and the flag set, so an edited /repo working tree always yields a fresh
build ("checks must rebuild from /repo's current working tree").

Variants
  io     stdio / clock / pid / allocator seams (seams.c)           -> C05..C17
  sched  io + trace-pc + instrument-functions + pthread/usleep/socket seams (sched.c) -> C19, C09

A build directory contains  librebound<EXT_SUFFIX>  next to a copy of /repo/rebound (without
tests), so putting it first on sys.path makes the whole Python layer run on the instrumented
library (rebound/__init__.py loads the library from the package's parent directory).
"""
import hashlib
import os
import re
import shutil
import subprocess
import sys
import sysconfig
from concurrent.futures import ThreadPoolExecutor

VERIF = os.path.dirname(os.path.dirname(os.path.abspath(__file__)))
REPO = os.environ.get("VERIF_REPO", "/repo")
BUILD_ROOT = os.environ.get("VERIF_BUILD_ROOT", os.path.join(VERIF, "build"))
SUFFIX = sysconfig.get_config_var("EXT_SUFFIX") or ".so"

BASE_FLAGS = ["-O3", "-std=c99", "-fstrict-aliasing", "-fPIC", "-D_GNU_SOURCE", "-DLIBREBOUND",
              "-DSERVER", "-Wno-unknown-pragmas", "-w", "-U_FORTIFY_SOURCE", "-D_FORTIFY_SOURCE=0",
              "-DGITHASH=verif"]
NO_BUILTIN = ["fwrite", "fread", "fopen", "fclose", "fseek", "ftell", "malloc", "calloc", "realloc",
              "free", "fputs", "fputc", "fprintf", "printf", "puts", "putchar"]
WRAP_IO = ["fopen", "fclose", "fwrite", "gettimeofday", "getpid",
           "malloc", "calloc", "realloc", "free"]
WRAP_SCHED = ["pthread_create", "pthread_join", "pthread_cancel", "pthread_mutex_init", "pthread_mutex_trylock",
              "pthread_mutex_lock", "pthread_mutex_unlock", "pthread_setcancelstate",
              "pthread_setcanceltype", "usleep", "socket", "setsockopt", "bind", "listen", "accept",
              "close", "access", "system", "printf", "puts", "putchar"]


class BuildError(Exception):
    pass


def repo_sources():
    """Translation units of the shipped Python extension, read from /repo/setup.py."""
    txt = open(os.path.join(REPO, "setup.py")).read()
    srcs = re.findall(r"'(src/[A-Za-z0-9_]+\.c)'", txt)
    seen, out = set(), []
    for s in srcs:
        if s in seen or os.path.basename(s) in ("glad.c", "communication_mpi.c"):
            continue
        seen.add(s)
        if os.path.exists(os.path.join(REPO, s)):
            out.append(s)
    if len(out) < 20:
        raise BuildError("could not read source list from setup.py (%d files)" % len(out))
    return out


def _hash_tree():
    h = hashlib.sha256()
    files = []
    for root, sub in ((REPO, "src"), (REPO, "rebound"), (VERIF, "sim")):
        base = os.path.join(root, sub)
        for dp, dn, fn in os.walk(base):
            dn[:] = sorted(d for d in dn if d not in ("__pycache__", "tests"))
            for f in sorted(fn):
                if f.endswith((".c", ".h", ".py")):
                    files.append(os.path.join(dp, f))
    files.append(os.path.join(REPO, "setup.py"))
    files.append(os.path.abspath(__file__))
    for f in files:
        h.update(f.encode())
        h.update(b"\0")
        with open(f, "rb") as fh:
            h.update(fh.read())
        h.update(b"\0")
    h.update(" ".join(BASE_FLAGS + WRAP_IO + WRAP_SCHED).encode())
    return h.hexdigest()[:16]


_tree_hash = None


def tree_hash():
    global _tree_hash
    if _tree_hash is None:
        _tree_hash = _hash_tree()
    return _tree_hash


def _run(cmd, cwd=None):
    p = subprocess.run(cmd, cwd=cwd, stdout=subprocess.PIPE, stderr=subprocess.STDOUT, text=True)
    if p.returncode != 0:
        raise BuildError("command failed: %s\n%s" % (" ".join(cmd), p.stdout[-4000:]))
    return p.stdout


def _gc_old(keep):
    """Keep disk usage bounded: remove builds for other tree hashes."""
    if not os.path.isdir(BUILD_ROOT):
        return
    for d in os.listdir(BUILD_ROOT):
        p = os.path.join(BUILD_ROOT, d)
        if d != keep and os.path.isdir(p) and re.fullmatch(r"[0-9a-f]{16}", d):
            try:
                if os.path.getmtime(p) < os.path.getmtime(os.path.join(BUILD_ROOT, keep)) - 6 * 3600:
                    shutil.rmtree(p, ignore_errors=True)
            except OSError:
                pass


def ensure(variant="io", quiet=True):
    """Build (if needed) and return the directory to put first on sys.path."""
    assert variant in ("io", "sched")
    th = tree_hash()
    out = os.path.join(BUILD_ROOT, th, variant)
    stamp = os.path.join(out, ".ok")
    if os.path.exists(stamp):
        return out
    tmp = out + ".tmp%d" % os.getpid()
    shutil.rmtree(tmp, ignore_errors=True)
    os.makedirs(os.path.join(tmp, "obj"))
    flags = list(BASE_FLAGS) + ["-fno-builtin-" + b for b in NO_BUILTIN]
    sflags = ["-O2", "-std=gnu11", "-fPIC", "-D_GNU_SOURCE", "-I" + os.path.join(REPO, "src"), "-w"]
    wraps = list(WRAP_IO)
    shim = ["seams.c", "oracle_c.c"]
    if variant == "sched":
        flags += ["-fsanitize-coverage=trace-pc", "-finstrument-functions", "-DVERIF_SCHED"]
        sflags += ["-DVERIF_SCHED"]
        wraps += WRAP_SCHED
        shim += ["sched.c"]
    jobs = []
    for s in repo_sources():
        o = os.path.join(tmp, "obj", os.path.basename(s)[:-2] + ".o")
        jobs.append(["gcc"] + flags + ["-c", os.path.join(REPO, s), "-o", o])
    for s in shim:
        p = os.path.join(VERIF, "sim", s)
        if not os.path.exists(p):
            continue
        o = os.path.join(tmp, "obj", "verif_" + s[:-2] + ".o")
        jobs.append(["gcc"] + sflags + ["-c", p, "-o", o])
    with ThreadPoolExecutor(16) as ex:
        list(ex.map(_run, jobs))
    objs = sorted(os.path.join(tmp, "obj", f) for f in os.listdir(os.path.join(tmp, "obj")))
    lib = os.path.join(tmp, "librebound" + SUFFIX)
    link = ["gcc", "-shared", "-o", lib] + objs + ["-Wl," + ",".join("--wrap=" + w for w in wraps),
                                                    "-lm", "-lpthread", "-ldl"]
    _run(link)
    shutil.copytree(os.path.join(REPO, "rebound"), os.path.join(tmp, "rebound"),
                    ignore=shutil.ignore_patterns("tests", "__pycache__"))
    shutil.rmtree(os.path.join(tmp, "obj"))
    # struct layout extracted from debug info of a tiny TU (independent of descriptor table / ctypes)
    try:
        _layout(tmp)
    except Exception as e:  # layout is only needed by some oracles; they report its absence
        open(os.path.join(tmp, "layout.err"), "w").write(str(e))
    open(os.path.join(tmp, ".ok"), "w").write(th)
    os.makedirs(os.path.dirname(out), exist_ok=True)
    try:
        os.rename(tmp, out)
    except OSError:
        shutil.rmtree(tmp, ignore_errors=True)  # lost a race against another process: fine
    _gc_old(th)
    if not quiet:
        print("built %s (%s)" % (variant, th))
    return out


def _layout(outdir):
    from . import layout
    layout.generate(REPO, outdir)


def activate(variant="io"):
    """Build and import rebound from the verification build. Returns the module."""
    d = ensure(variant)
    for m in [k for k in sys.modules if k == "rebound" or k.startswith("rebound.")]:
        del sys.modules[m]
    if d in sys.path:
        sys.path.remove(d)
    sys.path.insert(0, d)
    import rebound
    assert os.path.dirname(os.path.dirname(os.path.abspath(rebound.__file__))) == d, rebound.__file__
    return rebound


if __name__ == "__main__":
    for v in sys.argv[1:] or ["io"]:
        print(ensure(v, quiet=False))
