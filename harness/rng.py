"""SplitMix64 streams. One integer (VERIF_SEED) decides everything.

Rng.derive(*labels) gives an independent child stream whose state depends only on the parent's
*initial* key and the labels (not on how many numbers the parent has produced), so shrinking one
dimension of a case never reshuffles another.
"""
import hashlib
import struct

M64 = (1 << 64) - 1


def _mix(z):
    z = (z + 0x9E3779B97F4A7C15) & M64
    z = ((z ^ (z >> 30)) * 0xBF58476D1CE4E5B9) & M64
    z = ((z ^ (z >> 27)) * 0x94D049BB133111EB) & M64
    return z ^ (z >> 31)


def key_of(*labels):
    h = hashlib.blake2b(digest_size=8)
    for l in labels:
        h.update(repr(l).encode())
        h.update(b"\0")
    return struct.unpack("<Q", h.digest())[0]


class Rng:
    __slots__ = ("key", "state")

    def __init__(self, key):
        self.key = key & M64
        self.state = self.key

    def derive(self, *labels):
        return Rng(_mix(self.key ^ key_of(*labels)))

    def u64(self):
        self.state = (self.state + 0x9E3779B97F4A7C15) & M64
        z = self.state
        z = ((z ^ (z >> 30)) * 0xBF58476D1CE4E5B9) & M64
        z = ((z ^ (z >> 27)) * 0x94D049BB133111EB) & M64
        return z ^ (z >> 31)

    def random(self):
        return (self.u64() >> 11) * (1.0 / (1 << 53))

    def uniform(self, a, b):
        return a + (b - a) * self.random()

    def randint(self, a, b):
        """inclusive"""
        return a + self.u64() % (b - a + 1)

    def below(self, n):
        return self.u64() % n

    def chance(self, p):
        return self.random() < p

    def choice(self, seq):
        return seq[self.u64() % len(seq)]

    def weighted(self, pairs):
        """pairs: [(item, weight), ...]"""
        tot = sum(w for _, w in pairs)
        x = self.random() * tot
        for it, w in pairs:
            x -= w
            if x < 0:
                return it
        return pairs[-1][0]

    def shuffle(self, lst):
        for i in range(len(lst) - 1, 0, -1):
            j = self.u64() % (i + 1)
            lst[i], lst[j] = lst[j], lst[i]
        return lst

    def sample(self, seq, k):
        l = list(seq)
        self.shuffle(l)
        return l[:k]

    def normal(self):
        # sum of 12 uniforms: deterministic, no libm dependence
        return sum(self.random() for _ in range(12)) - 6.0

    def loguniform(self, a, b):
        import math
        return math.exp(self.uniform(math.log(a), math.log(b)))


def run_rng(verif_seed, prop, run_index):
    return Rng(_mix(key_of("verif", int(verif_seed), prop, int(run_index))))
