"""Seeded run engine: fork pool with crash attribution, shrinking, replay files, evidence,
known findings.  Property modules (harness/props/cXX.py) provide

    ID, LEVEL, VARIANT ("io" | "sched"), TITLE
    generate(rng, tier, index) -> case            (plain JSON-able dict, must contain "ops": [...] or own shrinker)
    execute(case, ctx) -> dict                    (runs in a forked worker)
        {"viols": [ {"oracle","clause","detail","key"} ... ],
         "sig": str|None,                         distinct non-trivial signature of the run (None = trivial)
         "probes": {name:int}, "faults": {kind:[enabled,fired]}, "sim": {steps:int, ...}, "digest": str}
    shrink(case, still_fails) -> case             (optional; default = ddmin over case["ops"])
    RULE                                          text: what makes a run distinct/non-trivial
    COMPONENTS                                    {"real":[...], "simulated":[...]}

Exit codes of a check: 0 held, 1 violation (VIOLATION line printed), 2 harness/build error.
"""
import hashlib
import ctypes
import gc
import json
import mmap
import os
import select
import signal
import struct
import sys
import time
import traceback

from . import build
from .rng import run_rng

VERIF = build.VERIF
OUT = os.environ.get("VERIF_OUT", VERIF)       # evidence/ and replays/ go here (self-tests against mutated trees use a scratch dir)
JOBS = int(os.environ.get("VERIF_JOBS", "0")) or (os.cpu_count() or 4)


# ----------------------------------------------------------------------------------------------
class Ctx:
    """Per-worker context handed to execute()."""

    def __init__(self, journal=None, known_keys=(), tier="quick", builddir=None):
        self._journal = journal
        self.known_keys = set(known_keys)
        self.tier = tier
        self.builddir = builddir
        self.tmpdir = None
        self.stop_at = None     # wall-clock deadline of the batch (long runs may cut their enumeration short and say so)

    def op(self, i):
        """Record 'about to execute op i' so that a process death can be attributed."""
        if self._journal is not None:
            struct.pack_into("<q", self._journal, 8, i)

    def known(self, key):
        return key in self.known_keys


def digest_of(obj):
    return hashlib.blake2b(json.dumps(obj, sort_keys=True, default=str).encode(), digest_size=12).hexdigest()


SEAM_KINDS = ("hostile_alloc", "realloc_forced_move", "free_poisoned", "heap_garbage_varied", "simulated_clock_read", "clock_jump", "io_event_logged", "guard_page_block")


def seam_counters():
    """cumulative activity at the C seams of the loaded librebound build (zeros if the build has none)"""
    try:
        from . import rb
        out = (ctypes.c_uint64 * 8)()
        rb.L.verif_seam_counters(out)
        return list(out[:8])
    except Exception:
        return [0] * 8


def _pin(k):
    """one CPU per worker process. The baton scheduler runs one thread of a process at a time; if its threads sit on different CPUs every hand-over is
    a cross-CPU wake-up (an inter-processor interrupt, very slow in a VM and ~15x slower still once several such processes run side by side)."""
    try:
        cpus = sorted(os.sched_getaffinity(0))
        os.sched_setaffinity(0, {cpus[k % len(cpus)]})
    except (AttributeError, OSError):
        pass


def load_known():
    p = os.path.join(VERIF, "known_findings.json")
    if not os.path.exists(p):
        return []
    return json.load(open(p)).get("findings", [])


# ----------------------------------------------------------------------------------------------
def _worker_loop(mod, seed, tier, w, nworkers, start, stop_at, max_index, wfd, journal, known_keys, builddir, tmproot):
    """Child process: execute runs start, start+nworkers, ... and stream results to the parent."""
    out = os.fdopen(wfd, "wb", buffering=0)
    _pin(w)
    ctx = Ctx(journal, known_keys, tier, builddir)
    ctx.stop_at = stop_at
    ctx.tmpdir = os.path.join(tmproot, "w%d" % w)
    os.makedirs(ctx.tmpdir, exist_ok=True)
    os.chdir(ctx.tmpdir)
    i = start
    nrun = 0
    while i < max_index and time.time() < stop_at:
        struct.pack_into("<qqd", journal, 0, i, -1, time.time())
        try:
            t_run = time.time()
            case = mod.generate(run_rng(seed, mod.ID, i), tier, i)
            c0 = seam_counters()
            res = mod.execute(case, ctx)
            res["seam"] = [b - a for a, b in zip(c0, seam_counters())]
            res["index"] = i
            if res.get("viols") or i < 3 * nworkers:
                res["case"] = case
            nrun += 1
            if nrun % 64 == 0 or time.time() - t_run > 0.2:
                gc.collect()    # simulations caught in reference cycles would otherwise pile up across the runs of a worker (thousands of guard-page mappings)
        except BaseException as e:  # harness exception: reported apart from violations
            if isinstance(e, (KeyboardInterrupt, SystemExit)):
                raise
            res = {"index": i, "harness_error": "%s: %s\n%s" % (type(e).__name__, e, traceback.format_exc()[-1500:])}
        data = json.dumps(res, default=str).encode() + b"\n"
        out.write(data)
        i += nworkers
    struct.pack_into("<qqd", journal, 0, -2, -1, time.time())
    out.close()
    os._exit(0)


class PoolResult:
    def __init__(self):
        self.results = []
        self.deaths = []     # (index, op, signal/exitcode)
        self.timeouts = []   # index
        self.harness_errors = []
        self.wall = 0.0


def run_pool(mod, seed, tier, budget_s, max_runs, known_keys, builddir, run_cap_s=60.0, jobs=None):
    jobs = jobs or JOBS
    jobs = max(1, min(jobs, max_runs))
    tmproot = os.environ.get("VERIF_TMP") or os.path.join("/tmp", "verif-%s-%d" % (mod.ID, os.getpid()))
    os.makedirs(tmproot, exist_ok=True)
    t0 = time.time()
    stop_at = t0 + budget_s
    pr = PoolResult()
    workers = {}  # w -> dict(pid, rfd, buf, journal, next_start)

    def spawn(w, start):
        if start >= max_runs or time.time() >= stop_at:
            return
        if w in workers and workers[w].get("journal") is not None:
            journal = workers[w]["journal"]
        else:
            journal = mmap.mmap(-1, 4096)
        struct.pack_into("<qqd", journal, 0, -1, -1, time.time())
        rfd, wfd = os.pipe()
        sys.stdout.flush()
        sys.stderr.flush()
        pid = os.fork()
        if pid == 0:
            os.close(rfd)
            for ww in workers.values():
                try:
                    os.close(ww["rfd"])
                except OSError:
                    pass
            try:
                _worker_loop(mod, seed, tier, w, jobs, start, stop_at, max_runs, wfd, journal, known_keys, builddir, tmproot)
            finally:
                os._exit(3)
        os.close(wfd)
        workers[w] = {"pid": pid, "rfd": rfd, "buf": b"", "journal": journal, "alive": True}

    for w in range(jobs):
        spawn(w, w)

    def drain(wk):
        try:
            chunk = os.read(wk["rfd"], 1 << 20)
        except OSError:
            chunk = b""
        if chunk:
            wk["buf"] += chunk
            while b"\n" in wk["buf"]:
                line, wk["buf"] = wk["buf"].split(b"\n", 1)
                try:
                    r = json.loads(line)
                except Exception:
                    continue
                if "harness_error" in r:
                    pr.harness_errors.append((r["index"], r["harness_error"]))
                else:
                    pr.results.append(r)
            return True
        return False

    while any(wk["alive"] for wk in workers.values()):
        live = [wk for wk in workers.values() if wk["alive"]]
        rl, _, _ = select.select([wk["rfd"] for wk in live], [], [], 0.5)
        now = time.time()
        for w, wk in list(workers.items()):
            if not wk["alive"]:
                continue
            if wk["rfd"] in rl:
                if drain(wk):
                    continue
                # EOF: child exited (or died)
                os.close(wk["rfd"])
                _, status = os.waitpid(wk["pid"], 0)
                wk["alive"] = False
                idx, op, _ts = struct.unpack_from("<qqd", wk["journal"], 0)
                if idx >= 0:  # died inside run idx
                    if wk.get("killed_for_timeout") or (os.WIFEXITED(status) and os.WEXITSTATUS(status) == 87):
                        pr.timeouts.append(idx)     # wall cap, or the scheduler's simulated-tick cap (exit 87): the run is too long, not wrong
                    else:
                        sig = os.WTERMSIG(status) if os.WIFSIGNALED(status) else -os.WEXITSTATUS(status)
                        pr.deaths.append((idx, op, sig))
                    if len(pr.deaths) < 64:     # enough evidence; do not burn the budget on respawns
                        spawn(w, idx + jobs)
            else:
                idx, op, ts = struct.unpack_from("<qqd", wk["journal"], 0)
                if idx >= 0 and ts > 1e9 and now - ts > run_cap_s and not wk.get("killed_for_timeout"):
                    if wk.get("slow_seen") != (idx, ts):
                        wk["slow_seen"] = (idx, ts)   # must hold on two consecutive polls (torn journal reads)
                        continue
                    wk["killed_for_timeout"] = True
                    try:
                        os.kill(wk["pid"], signal.SIGKILL)
                    except OSError:
                        pass
    pr.wall = time.time() - t0
    import shutil
    shutil.rmtree(tmproot, ignore_errors=True)
    return pr


# ----------------------------------------------------------------------------------------------
def run_isolated(mod, case, known_keys, builddir, tier="quick", cap_s=120.0):
    """Execute one case in a sacrificial forked child. Returns result dict (with 'died' on death)."""
    journal = mmap.mmap(-1, 4096)
    struct.pack_into("<qqd", journal, 0, 0, -1, time.time())
    rfd, wfd = os.pipe()
    sys.stdout.flush()
    sys.stderr.flush()
    tmproot = os.path.join("/tmp", "verif-iso-%d-%d" % (os.getpid(), int(time.time() * 1e6) % 10**9))
    pid = os.fork()
    if pid == 0:
        try:
            os.close(rfd)
            _pin(os.getpid())
            os.makedirs(tmproot, exist_ok=True)
            os.chdir(tmproot)
            ctx = Ctx(journal, known_keys, tier, builddir)
            ctx.tmpdir = tmproot
            try:
                res = mod.execute(case, ctx)
            except BaseException as e:
                res = {"harness_error": "%s: %s\n%s" % (type(e).__name__, e, traceback.format_exc()[-1500:])}
            os.write(wfd, json.dumps(res, default=str).encode())
            os.close(wfd)
        finally:
            os._exit(0)
    os.close(wfd)
    buf = b""
    t0 = time.time()
    timed_out = False
    while True:
        rl, _, _ = select.select([rfd], [], [], 1.0)
        if rl:
            ch = os.read(rfd, 1 << 20)
            if not ch:
                break
            buf += ch
        elif time.time() - t0 > cap_s:
            timed_out = True
            os.kill(pid, signal.SIGKILL)
            break
    os.close(rfd)
    _, status = os.waitpid(pid, 0)
    import shutil
    shutil.rmtree(tmproot, ignore_errors=True)
    if timed_out or (os.WIFEXITED(status) and os.WEXITSTATUS(status) == 87):
        return {"timeout": True, "viols": []}
    if os.WIFSIGNALED(status) or not buf:
        _, op, _ = struct.unpack_from("<qqd", journal, 0)
        sig = os.WTERMSIG(status) if os.WIFSIGNALED(status) else -(os.WEXITSTATUS(status) or 1)
        return {"died": sig, "viols": [death_violation(op, sig)]}
    return json.loads(buf)


def death_violation(op, sig):
    if sig == -86:
        return {"oracle": "liveness", "clause": "deadlock: every thread is blocked and no timer or client arrival is pending",
                "detail": "scheduler exit 86 while executing op %s" % op, "key": "deadlock"}
    return {"oracle": "process", "clause": "calling process died",
            "detail": "signal %s while executing op %s" % (sig, op), "key": "process-died"}


def first_unknown(viols, known_keys):
    for v in viols or []:
        if v.get("key") not in known_keys:
            return v
    return None


def vclass(v):
    return (v["oracle"], v["clause"], v.get("key"))


# ----------------------------------------------------------------------------------------------
def ddmin(items, fails):
    """Classic ddmin: smallest sub-list (order preserved) for which fails(sub) is True."""
    n = 2
    items = list(items)
    while len(items) >= 2:
        chunk = max(1, len(items) // n)
        subsets = [items[i:i + chunk] for i in range(0, len(items), chunk)]
        reduced = False
        for i, s in enumerate(subsets):
            comp = [x for j, ss in enumerate(subsets) if j != i for x in ss]
            if comp and fails(comp):
                items = comp
                n = max(n - 1, 2)
                reduced = True
                break
        if not reduced:
            if n >= len(items):
                break
            n = min(len(items), n * 2)
    if len(items) == 1 and fails([]):
        return []
    return items


def shrink_case(mod, case, target, known_keys, builddir, tier, budget_s=120.0, viol=None):
    """Minimise while the same violation class persists."""
    t_end = time.time() + budget_s
    tries = [0]

    def still_fails(c):
        if time.time() > t_end:
            return False
        tries[0] += 1
        r = run_isolated(mod, c, known_keys, builddir, tier)
        v = first_unknown(r.get("viols"), known_keys)
        return v is not None and vclass(v) == target

    if hasattr(mod, "shrink"):
        case = mod.shrink(case, still_fails, viol)
    elif isinstance(case.get("ops"), list):
        def f(ops):
            c = dict(case)
            c["ops"] = ops
            return still_fails(c)
        case = dict(case)
        case["ops"] = ddmin(case["ops"], f)
    return case, tries[0]


# ----------------------------------------------------------------------------------------------
def write_replay(mod, seed, index, case, v, digest):
    d = os.path.join(OUT, "replays", mod.ID)
    os.makedirs(d, exist_ok=True)
    path = os.path.join(d, "%s-seed%d-run%d.json" % (mod.ID, seed, index))
    json.dump({"property": mod.ID, "engine": mod.VARIANT, "tree_hash": build.tree_hash(), "verif_seed": seed,
               "run_index": index, "case": case, "violation": v, "digest": digest}, open(path, "w"), indent=1, default=str)
    return path


def replay(path):
    from . import props
    rp = json.load(open(path))
    mod = props.load(rp["property"])
    builddir = build.ensure(mod.VARIANT)
    build.activate(mod.VARIANT)
    known = [f["key"] for f in load_known() if f.get("status") == "known" and f["property"] == mod.ID]
    r = run_isolated(mod, rp["case"], known, builddir)
    v = first_unknown(r.get("viols"), known)
    if v is not None and vclass(v) == tuple(vclass(rp["violation"])):
        print("replay: reproduced %s / %s: %s" % (v["oracle"], v["clause"], v.get("detail")))
        print("VIOLATION property=%s replay=%s" % (mod.ID, path))
        return 1
    print("NOT-REPRODUCED property=%s replay=%s (got %r)" % (mod.ID, path, v))
    return 3


# ----------------------------------------------------------------------------------------------
def check(mod, tier):
    t0 = time.time()
    seed = int(os.environ.get("VERIF_SEED", "0"))
    tier = os.environ.get("VERIF_TIER", tier)
    if tier not in ("quick", "thorough"):
        tier = "quick"
    budget = float(os.environ.get("VERIF_BUDGET_S", mod.BUDGET[tier]))
    max_runs = int(os.environ.get("VERIF_MAX_RUNS", getattr(mod, "MAX_RUNS", {}).get(tier, 10**9)))
    print("VERIF_SEED=%d property=%s tier=%s budget=%.0fs jobs=%d" % (seed, mod.ID, tier, budget, JOBS))
    try:
        builddir = build.ensure(mod.VARIANT)
        build.activate(mod.VARIANT)
        if hasattr(mod, "prepare"):
            mod.prepare(builddir)
    except build.BuildError as e:
        print("HARNESS-ERROR build failed: %s" % e)
        return 2
    findings = [f for f in load_known() if f["property"] == mod.ID]
    known_keys = [f["key"] for f in findings if f.get("status") == "known"]
    pr = run_pool(mod, seed, tier, budget, max_runs, known_keys, builddir, run_cap_s=getattr(mod, "RUN_CAP_S", 90.0))

    evaluations = len(pr.results)
    sigs = set()
    probes, faults, simt = {}, {}, {}
    samples = []
    known_hit = {}
    unknown = []
    for r in sorted(pr.results, key=lambda r: r["index"]):
        if r.get("sig"):
            for s in (r["sig"] if isinstance(r["sig"], list) else [r["sig"]]):
                sigs.add(s)
        for k, v in (r.get("probes") or {}).items():
            probes[k] = probes.get(k, 0) + v
        for k, v in (r.get("faults") or {}).items():
            a = faults.setdefault(k, [0, 0])
            a[0] += v[0]
            a[1] += v[1]
        for k, n in zip(SEAM_KINDS, r.get("seam") or ()):
            a = faults.setdefault(k, [0, 0])      # [runs in which the seam acted, total events]
            a[0] += 1 if n else 0
            a[1] += n
        for k, v in (r.get("sim") or {}).items():
            simt[k] = simt.get(k, 0) + v
        if "case" in r and len(samples) < 3 and not r.get("viols"):
            samples.append(_abbrev(r["case"]))
        for v in r.get("viols") or []:
            if v.get("key") in known_keys:
                known_hit[v["key"]] = known_hit.get(v["key"], 0) + 1
            else:
                unknown.append((r["index"], v, r.get("case")))
                break
    for idx, op, sig in pr.deaths:
        unknown.append((idx, death_violation(op, sig), None))
    unknown.sort(key=lambda x: x[0])

    rc = 0
    viol_count = 0
    replay_path = None
    unreproduced_deaths = []
    while unknown:
        idx, v, case = unknown[0]
        if case is None:
            case = mod.generate(run_rng(seed, mod.ID, idx), tier, idx)
        # confirm in isolation, shrink, re-confirm from the replay file
        r0 = run_isolated(mod, case, known_keys, builddir, tier)
        v0 = first_unknown(r0.get("viols"), known_keys)
        if v0 is None and v.get("key") == "process-died":
            # a worker of the pool died, but the same run executed alone (twice) is clean: not a property of the run (memory pressure with 16 workers, a kill from
            # outside, ...). Reported as a harness verdict, never as a violation, and the remaining candidates are still examined.
            r0b = run_isolated(mod, case, known_keys, builddir, tier)
            if first_unknown(r0b.get("viols"), known_keys) is None:
                print("harness verdict WORKER-DEATH-NOT-REPRODUCED for run %d (%s): executed alone twice without a violation; not counted" % (idx, v.get("detail")))
                unreproduced_deaths.append(idx)
                unknown.pop(0)
                continue
            v0 = first_unknown(r0b.get("viols"), known_keys)
        if v0 is None:
            print("HARNESS-ERROR violation in run %d (%s/%s) did not reproduce in isolation: non-deterministic harness" % (idx, v["oracle"], v["clause"]))
            rc = 2
        else:
            target = vclass(v0)
            small, tries = shrink_case(mod, case, target, known_keys, builddir, tier,
                                       budget_s=float(os.environ.get("VERIF_SHRINK_S", "90")), viol=v0)
            r1 = run_isolated(mod, small, known_keys, builddir, tier)
            v1 = first_unknown(r1.get("viols"), known_keys)
            if v1 is None or vclass(v1) != target:
                small, v1 = case, v0
            replay_path = write_replay(mod, seed, idx, small, v1, digest_of(v1))
            print("violation: run=%d oracle=%s clause=%s" % (idx, v1["oracle"], v1["clause"]))
            print("  detail: %s" % str(v1.get("detail"))[:600])
            print("  minimised with %d executions; %d runs violated in this batch" % (tries, len(unknown)))
            print("VIOLATION property=%s replay=%s" % (mod.ID, replay_path))
            rc = 1
            viol_count = len(unknown)
        break
    for f in findings:
        if f.get("status") == "known" and known_hit.get(f["key"]):
            print("KNOWN-FINDING: property=%s %s (key=%s, hit in %d runs)" % (mod.ID, f["what"], f["key"], known_hit[f["key"]]))
    if pr.harness_errors:
        idx, msg = pr.harness_errors[0]
        print("HARNESS-ERROR in run %d (%d runs affected):\n%s" % (idx, len(pr.harness_errors), msg))
        if rc == 0:
            rc = 2
    if evaluations == 0 and rc == 0:
        print("HARNESS-ERROR no run completed")
        rc = 2
    wall = time.time() - t0
    ev = {
        "property_id": mod.ID, "tier": tier, "seed": seed, "level": mod.LEVEL,
        "coverage": {
            "evaluations": evaluations,
            "distinct_nontrivial": len(sigs),
            "rule": mod.RULE,
            "samples": samples or [{"note": "no clean sample recorded"}],
            "runs_per_hour": int(evaluations / max(pr.wall, 1e-9) * 3600),
            "pool_wall_s": round(pr.wall, 2),
            "jobs": JOBS,
            "run_indices": "0..%d (strided over workers, time-bounded)" % (max([r["index"] for r in pr.results]) if pr.results else -1),
            "simulated": simt,
            "faults_enabled_fired": faults,
            "reach_probes": probes,
            "known_findings_hit": known_hit,
            "harness_verdicts": {"TIMEOUT": len(pr.timeouts), "WORKER-DEATH": len(pr.deaths), "WORKER-DEATH-NOT-REPRODUCED": len(unreproduced_deaths), "HARNESS-ERROR": len(pr.harness_errors)},
            "components": getattr(mod, "COMPONENTS", {}),
            "tree_hash": build.tree_hash(),
        },
        "assumptions": getattr(mod, "ASSUMPTIONS", []),
        "wall_s": round(wall, 2),
        "violations": viol_count,
    }
    if hasattr(mod, "evidence_extra"):
        ev["coverage"].update(mod.evidence_extra(pr.results))
    os.makedirs(os.path.join(OUT, "evidence"), exist_ok=True)
    json.dump(ev, open(os.path.join(OUT, "evidence", mod.ID + ".json"), "w"), indent=1, default=str)
    if pr.timeouts:
        print("harness verdict TIMEOUT for runs %s (wall cap %.0fs per run; not counted as violations)" % (sorted(pr.timeouts)[:12], getattr(mod, "RUN_CAP_S", 90.0)))
    zero = [k for k in getattr(mod, "PROBES", []) if not probes.get(k)]
    if zero and tier == "thorough":
        print("warning: reach probes at zero: %s" % ", ".join(zero))
    print("%s %s: runs=%d distinct=%d wall=%.1fs timeouts=%d deaths=%d -> exit %d" % (
        mod.ID, tier, evaluations, len(sigs), wall, len(pr.timeouts), len(pr.deaths), rc))
    return rc


def _abbrev(case, limit=1800):
    s = json.dumps(case, default=str)
    if len(s) <= limit:
        return case
    return {"abbreviated": s[:limit] + "..."}
