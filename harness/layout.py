"""True C layout of struct reb_simulation / reb_particle / reb_treecell, from DWARF via gdb.

Written at build time to <builddir>/layout.json as a flat list of leaf members:
    {"struct": {name: {"size": n, "members": [[path, offset, size, kind, ctype], ...]}}}
kind: "scalar" | "ptr" | "fptr" | "array"
The source is the header compiled by gcc, *not* the descriptor table and *not* the ctypes
mirror, so it can serve as an independent view in oracles (DESIGN.md: X(sim)).
"""
import json
import os
import re
import subprocess

TU = """
#include "rebound.h"
#include "tree.h"
struct reb_simulation verif_layout_sim;
struct reb_particle verif_layout_particle;
struct reb_treecell verif_layout_cell;
struct reb_variational_configuration verif_layout_vc;
struct reb_simulationarchive verif_layout_sa;
struct reb_collision verif_layout_collision;
"""
STRUCTS = ["reb_simulation", "reb_particle", "reb_treecell", "reb_variational_configuration",
           "reb_simulationarchive", "reb_collision"]

LINE = re.compile(r"^/\*\s*(\d+)(?::\s*\d+)?\s*\|\s*(\d+)\s*\*/\s*(.*)$")


def parse(text):
    members = []
    stack = []  # (offset) of open nested aggregates; names come at the closing brace
    pending = []  # members collected for the currently open aggregates
    total = None
    for raw in text.splitlines():
        s = raw.rstrip()
        m = LINE.match(s.strip())
        if m:
            off, size, rest = int(m.group(1)), int(m.group(2)), m.group(3).strip()
            if rest.startswith("type = "):
                rest = rest[len("type = "):]
            if rest.endswith("{"):
                stack.append((off, size, len(members)))
                continue
            decl = rest.rstrip(";")
            if "(*" in decl:
                name = re.search(r"\(\*\s*([A-Za-z_0-9]+)\)", decl).group(1)
                kind = "fptr"
            else:
                mm = re.search(r"([A-Za-z_0-9]+)((?:\[\d+\])*)\s*$", decl)
                name = mm.group(1)
                typ = decl[:mm.start()].strip()
                if "*" in typ:
                    kind = "ptr"
                elif mm.group(2):
                    kind = "array"
                else:
                    kind = "scalar"
            members.append([name, off, size, kind, decl, len(stack)])
            continue
        st = s.strip()
        mm = re.match(r"^\}\s*([A-Za-z_0-9]+)?((?:\[\d+\])*)\s*;?$", st)
        if mm and stack:
            off, size, start = stack.pop()
            name = mm.group(1)
            if name is None:
                continue
            # prefix the members collected since the aggregate was opened
            for k in range(start, len(members)):
                members[k][0] = name + "." + members[k][0]
            continue
        mm = re.search(r"total size \(bytes\):\s*(\d+)", st)
        if mm and len(stack) <= 1:
            total = int(mm.group(1))
    return total, [m[:5] for m in members]


def generate(repo, outdir):
    src = os.path.join(outdir, "verif_layout.c")
    obj = os.path.join(outdir, "verif_layout.o")
    open(src, "w").write(TU)
    subprocess.run(["gcc", "-g", "-O0", "-std=c99", "-D_GNU_SOURCE", "-DLIBREBOUND", "-DSERVER", "-w",
                    "-I" + os.path.join(repo, "src"), "-c", src, "-o", obj], check=True,
                   stdout=subprocess.PIPE, stderr=subprocess.STDOUT)
    out = {}
    cmd = ["gdb", "-batch", "-nx"]
    for s in STRUCTS:
        cmd += ["-ex", "echo @@@%s\\n" % s, "-ex", "ptype /o struct %s" % s]
    p = subprocess.run(cmd + [obj], stdout=subprocess.PIPE, stderr=subprocess.STDOUT, text=True, timeout=120)
    chunks = p.stdout.split("@@@")[1:]
    for ch in chunks:
        name, _, body = ch.partition("\n")
        total, mem = parse(body)
        if total is None or not mem:
            raise RuntimeError("layout parse failed for %s" % name)
        out[name.strip()] = {"size": total, "members": mem}
    json.dump({"struct": out}, open(os.path.join(outdir, "layout.json"), "w"))
    os.unlink(src)
    os.unlink(obj)
    return out


def load(builddir):
    return json.load(open(os.path.join(builddir, "layout.json")))["struct"]
