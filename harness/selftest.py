"""./vcheck --selftest determinism [props...]   |   ./vcheck --selftest sensitivity [patch...]

determinism : for every property, N cases are executed twice in isolated processes and once more in a freshly
              exec'ed interpreter with another PYTHONHASHSEED and another worker layout; the full result records
              (violations, signatures, probes, simulated counters, schedule digests) must agree pairwise.
sensitivity : every patch under /verif/mutants (reverted fixes + hand-written mutants) and /verif/seeded/*/patch.diff is
              applied to a scratch git worktree of /repo (outside /repo and /verif, removed afterwards); the check of the
              property it targets must report a violation within the quick budget.
Results are written to /verif/evidence/selftest-*.json (not schema-bound evidence files).
"""
import glob
import hashlib
import json
import os
import re
import shutil
import subprocess
import sys
import time

from . import build, engine, props
from .rng import run_rng

VERIF = build.VERIF


def _res_digest(r):
    keep = {k: r.get(k) for k in ("viols", "sig", "probes", "faults", "sim", "died", "timeout")}
    if keep.get("viols"):
        keep["viols"] = [(v.get("oracle"), v.get("clause"), v.get("key")) for v in keep["viols"]]
    return hashlib.blake2b(json.dumps(keep, sort_keys=True, default=str).encode(), digest_size=10).hexdigest()


def det_child(pid, indices, seed):
    """(runs in a fresh interpreter) execute the given run indices, print index:digest lines"""
    mod = props.load(pid)
    bd = build.ensure(mod.VARIANT)
    build.activate(mod.VARIANT)
    if hasattr(mod, "prepare"):
        mod.prepare(bd)
    known = [f["key"] for f in engine.load_known() if f["property"] == pid and f.get("status") == "known"]
    for i in indices:
        case = mod.generate(run_rng(seed, pid, i), "quick", i)
        r = engine.run_isolated(mod, case, known, bd)
        print("DIGEST %d %s" % (i, _res_digest(r)))
    return 0


def determinism(pids, n=24, seed=0):
    ok = True
    report = {}
    for pid in pids:
        t0 = time.time()
        idx = list(range(0, n))
        runs = []
        for variant, (hs, chunking) in enumerate([("0", 1), ("0", 4), ("12345", 3)]):
            chunks = [idx[k::chunking] for k in range(chunking)]
            procs = []
            for ch in chunks:
                env = dict(os.environ, PYTHONHASHSEED=hs, VERIF_SEED=str(seed))
                cmd = [sys.executable, os.path.join(VERIF, "vcheck"), "--selftest", "_detchild", pid, str(seed)] + [str(i) for i in ch]
                procs.append(subprocess.Popen(cmd, stdout=subprocess.PIPE, stderr=subprocess.DEVNULL, text=True, env=env, cwd=VERIF))
            d = {}
            for p in procs:
                out, _ = p.communicate(timeout=1800)
                for line in out.splitlines():
                    m = re.match(r"DIGEST (\d+) (\w+)", line)
                    if m:
                        d[int(m.group(1))] = m.group(2)
            runs.append(d)
        bad = [i for i in idx if len({r.get(i) for r in runs}) != 1 or runs[0].get(i) is None]      # a missing digest (child died) counts as a divergence
        report[pid] = dict(cases=n, executions=3 * n, layouts="1 process / 4 processes / 3 processes with PYTHONHASHSEED=12345",
                           diverged=bad, digests={str(i): runs[0].get(i) for i in idx[:6]}, wall_s=round(time.time() - t0, 1))
        print("determinism %s: %d cases x 3 executions -> %s (%.0fs)" % (pid, n, "OK" if not bad else "DIVERGED at %s" % bad, time.time() - t0))
        if bad:
            ok = False
    os.makedirs(os.path.join(VERIF, "evidence"), exist_ok=True)
    json.dump(report, open(os.path.join(VERIF, "evidence", "selftest-determinism.json"), "w"), indent=1)
    return 0 if ok else 1


def patches():
    out = []
    for p in sorted(glob.glob(os.path.join(VERIF, "mutants", "*.diff"))):
        m = re.search(r"-(C\d\d)\.diff$", p)
        if m:
            out.append((os.path.basename(p)[:-5], m.group(1), p))
    for d in sorted(glob.glob(os.path.join(VERIF, "seeded", "*"))):
        meta = os.path.join(d, "meta.json")
        pf = os.path.join(d, "patch.diff")
        if os.path.exists(meta) and os.path.exists(pf):
            mj = json.load(open(meta))
            out.append(("seeded/" + os.path.basename(d), mj["property"], pf))
    return out


def sensitivity(only=None, budget=None):
    scratch = "/tmp/verif-sens-%d" % os.getpid()
    subprocess.run(["git", "-C", build.REPO, "worktree", "add", "-q", "--detach", scratch, "HEAD"], check=True)
    report = {}
    ok = True
    try:
        for name, pid, pf in patches():
            if only and not any(o in name for o in only):
                continue
            subprocess.run(["git", "-C", scratch, "checkout", "-q", "--", "."], check=True)
            a = subprocess.run(["git", "-C", scratch, "apply", pf], stderr=subprocess.PIPE, text=True)
            if a.returncode:
                report[name] = dict(property=pid, result="PATCH-DOES-NOT-APPLY", detail=a.stderr[-300:])
                print("sensitivity %-34s %s: patch does not apply" % (name, pid))
                continue
            mj = {}
            mp = os.path.join(os.path.dirname(pf), "meta.json")
            if os.path.exists(mp):
                mj = json.load(open(mp))
            env = dict(os.environ, VERIF_REPO=scratch, VERIF_BUILD_ROOT=os.path.join(scratch, ".verif-build"), VERIF_OUT=os.path.join(scratch, ".verif-out"))
            env["VERIF_BUDGET_S"] = str(budget or mj.get("budget_s", 40))
            t0 = time.time()
            p = subprocess.run([os.path.join(VERIF, "vcheck"), pid, mj.get("tier", "quick")], stdout=subprocess.PIPE, stderr=subprocess.STDOUT, text=True, env=env, cwd=VERIF, timeout=3600)
            v = re.search(r"violation: run=(\d+) oracle=(\S+) clause=(.*)", p.stdout)
            detected = p.returncode == 1 and "VIOLATION property=%s" % pid in p.stdout
            report[name] = dict(property=pid, detected=detected, exit=p.returncode, first_violation=(v.group(0)[:200] if v else None), wall_s=round(time.time() - t0, 1))
            rp = re.search(r"VIOLATION property=%s replay=(\S+)" % pid, p.stdout)
            replayed = None
            if detected and rp:
                # the (minimised) replay file must reproduce the violation in a fresh process, twice, with the same clause
                outs = []
                for k in range(2):
                    q = subprocess.run([os.path.join(VERIF, "vcheck"), "--replay", rp.group(1)], stdout=subprocess.PIPE, stderr=subprocess.STDOUT, text=True, env=dict(env, PYTHONHASHSEED=str(k * 777)), cwd=VERIF, timeout=1800)
                    vv = re.search(r"replay: reproduced (\S+) / ([^:]*)", q.stdout)
                    outs.append((q.returncode, vv.group(1) if vv else None, (vv.group(2)[:80] if vv else None)))
                replayed = outs[0][0] == 1 and outs[0] == outs[1]
                report[name]["replay"] = dict(file=os.path.basename(rp.group(1)), reproduced_twice=replayed, outcome=outs[0])
            print("sensitivity %-34s %s: %s  %s%s" % (name, pid, "DETECTED" if detected else "MISSED (exit %d)" % p.returncode, (v.group(0)[:120] if v else ""),
                                                  "" if replayed is None else ("  replay:OK" if replayed else "  replay:DIVERGED %s" % outs)))
            if not detected or replayed is False:
                ok = False
            shutil.rmtree(os.path.join(scratch, ".verif-build"), ignore_errors=True)
            # replay files written against the scratch tree are not kept
            for f in glob.glob(os.path.join(VERIF, "replays", pid, "*.json")):
                pass
    finally:
        subprocess.run(["git", "-C", build.REPO, "worktree", "remove", "--force", scratch])
        shutil.rmtree(scratch, ignore_errors=True)
    os.makedirs(os.path.join(VERIF, "evidence"), exist_ok=True)
    prev = {}
    outp = os.path.join(VERIF, "evidence", "selftest-sensitivity.json")
    if only and os.path.exists(outp):
        prev = json.load(open(outp))
    prev.update(report)
    json.dump(prev, open(outp, "w"), indent=1)
    return 0 if ok else 1


def main(argv):
    if not argv:
        print(__doc__)
        return 2
    if argv[0] == "_detchild":
        return det_child(argv[1], [int(x) for x in argv[3:]], int(argv[2]))
    if argv[0] == "determinism":
        return determinism(argv[1:] or props.CLAIMED, n=int(os.environ.get("VERIF_DET_N", "48")))
    if argv[0] == "sensitivity":
        return sensitivity(argv[1:] or None)
    print(__doc__)
    return 2
