"""./vcheck --setup : offline build of the verification variants + import smoke test."""
import os
import shutil
import subprocess
import sys
import time

from . import build


def main():
    t0 = time.time()
    for tool in ("gcc", "gdb"):
        if not shutil.which(tool):
            print("HARNESS-ERROR missing tool: %s" % tool)
            return 2
    try:
        for v in ("io", "sched"):
            if v == "sched" and not os.path.exists(os.path.join(build.VERIF, "sim", "sched.c")):
                continue
            d = build.ensure(v, quiet=False)
            code = ("import sys; sys.path.insert(0, %r); import rebound; s = rebound.Simulation(); s.add(m=1); "
                    "s.add(m=1e-3, a=1); s.integrate(1.0); print('import ok', rebound.__file__)" % d)
            p = subprocess.run([sys.executable, "-c", code], stdout=subprocess.PIPE, stderr=subprocess.STDOUT, text=True, timeout=120)
            print(p.stdout.strip())
            if p.returncode != 0:
                print("HARNESS-ERROR import smoke test failed for %s" % v)
                return 2
    except build.BuildError as e:
        print("HARNESS-ERROR build failed: %s" % e)
        return 2
    print("setup ok in %.1fs" % (time.time() - t0))
    return 0
