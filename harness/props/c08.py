"""C08 — integrate() honours its time, step-size and status contract.

Two thirds of this property is about floating-point coincidences of (t, dt, tmax); drawing those is
input generation and is labelled as such.  What simulation adds is the event dimension: the loop
is a small state machine (RUNNING <-> LAST_STEP -> exit codes) driven by things that happen between
steps - a user stop, an exit condition, a second integrate() re-entering with the previous call's
leftovers, an adaptive integrator shrinking what was meant to be the last step.  Events are injected
at seeded step boundaries through the heartbeat seam and the contract is checked over the recorded
boundary history of every call.
"""
import math
import struct

from .. import simgen

ID = "C08"
TITLE = "integrate() honours its time, step-size and status contract"
LEVEL = "exploration"
VARIANT = "io"
BUDGET = {"quick": 30, "thorough": 600}
RUN_CAP_S = 20.0
RULE = ("one run = integrator x (t0, dt, tmax) drawn around floating-point coincidences (dt larger than the interval, multiples of dt within 1 ulp of tmax, targets before / "
        "after / equal to t, huge t0) x exact_finish_time x a partition of the interval into 1-6 consecutive integrate() calls x an event script (user stop at a seeded "
        "boundary, escape condition, no particles). Non-trivial = at least two calls or one event and >=2 steps; distinct = digest of (integrator, exact, direction, "
        "number of calls, event kinds, step counts per call).")
COMPONENTS = {"real": ["reb_simulation_integrate_raw, reb_check_exit, reb_run_heartbeat", "per-integrator time / dt_last_done updates", "Python status -> exception mapping"],
              "simulated": ["events between steps (heartbeat seam: user stop at a chosen boundary)", "call partition (re-entry with the previous call's leftovers)", "wall clock"]}
ASSUMPTIONS = ["(t0, dt, tmax) triples are input draws (not simulation); the event / re-entry dimension is what the seeded schedule explores",
               "splitting clause only for fixed-step integrators in safe mode with exact_finish_time=0 (C09 allows rounding-level differences when a deferred half step is closed early)"]
PROBES = ["pre_true_escape", "pre_true_encounter", "stop_on_shortened_last_step", "late_escape_event", "late_encounter_event", "late_collision_event", "first_step_is_last", "dt_larger_than_interval", "target_behind", "target_equal", "multi_call", "user_stop_event", "escape_event", "no_particles_event", "adaptive_shrunk_last_step", "backward"]

FIXED = ["whfast", "saba", "leapfrog", "janus", "eos", "sei", "none", "mercurius"]
ADAPTIVE = ["ias15", "bs", "trace"]


def generate(rng, tier, index):
    c = rng.derive("cfg")
    integ = (FIXED + ADAPTIVE)[index % 11] if index < 33 else c.choice(FIXED + ADAPTIVE)
    cfg = simgen.gen_planetary_config(c, integrators=[integ], nmin=2, nmax=4, allow_var=False, allow_collisions=False, allow_tp=False, allow_unsafe=False)
    for k in ("exit_max_distance", "force", "units", "exact_finish_time"):
        cfg.pop(k, None)
    d = rng.derive("drv")
    dt = abs(cfg["dt"])
    if integ == "ias15" and rng.derive("mindt").chance(0.35):
        # a floor on the adaptive step that is larger than the remainder of the interval in the last step
        cfg["opts"] = dict(cfg.get("opts", {}))
        cfg["opts"]["ri_ias15.min_dt"] = dt * rng.derive("mindt").choice([0.01, 0.3])
    t0 = d.choice([0.0, 0.0, d.uniform(-5, 5), 1e3, 1e8 if integ in FIXED else 10.0])
    sgn = d.choice([1, 1, -1]) if integ != "trace" else 1
    kind = d.weighted([("multiple", 4), ("random", 4), ("short", 2), ("equal", 1), ("ulp", 3)])
    nsteps = d.randint(1, 40)
    if kind == "multiple":
        span = nsteps * dt
    elif kind == "random":
        span = dt * d.uniform(0.5, 40)
    elif kind == "short":
        span = dt * d.uniform(0.01, 0.99)
    elif kind == "equal":
        span = 0.0
    else:
        span = nsteps * dt * (1 + d.choice([-1, 1, 2, -2]) * 2.220446049250313e-16)
    tmax = t0 + sgn * span
    ncalls = d.choice([1, 1, 2, 3, 6])
    fr = sorted(d.random() for _ in range(ncalls - 1))
    targets = [t0 + sgn * span * f for f in fr] + [tmax]
    cfg["dt"] = dt * d.choice([1, 1, -1])           # the sign the user left in dt need not match the direction of the call
    ev = rng.derive("events")
    events = []
    if ev.chance(0.35):
        events.append(dict(kind="stop", at=ev.randint(0, max(1, nsteps))))
    if ev.chance(0.1):
        events.append(dict(kind="escape"))
    if ev.chance(0.05):
        events.append(dict(kind="noparticles"))
    late = None
    lt = rng.derive("late")
    if integ in FIXED and lt.chance(0.2):
        # an exit condition (escape / close encounter) that becomes true for the first time at a LATER step boundary: integrate() has to stop exactly there
        # (MERCURIUS searches for collisions inside its encounter sub-steps and in heliocentric coordinates: "the boundary at which a pair first overlaps" is
        #  not defined by the boundary states alone, so the halting collision is not posed for it)
        late = dict(kind=lt.choice(["escape", "encounter", "collision"] if integ != "mercurius" else ["escape", "encounter"]), horizon=lt.randint(6, 40), exact=lt.choice([0, 1]), pick=lt.randint(0, 1000))
    pre = None
    pr = rng.derive("pre")
    if pr.chance(0.15):
        # an exit condition that is ALREADY true when integrate() is called again after a successful call (the user tightened a threshold between
        # the calls): boundary 0 of the second call is the first boundary at which it is true, so the call must report it without taking a step
        pre = dict(kind=pr.choice(["escape", "encounter"]), first=pr.randint(1, 6), exact=pr.choice([0, 1]), exact_first=pr.choice([0, 0, 1]))
    return dict(config=cfg, t0=t0, targets=targets, exact=d.choice([0, 1]), events=events, late=late, pre=pre)


def shrink(case, still_fails, viol=None):
    c = dict(case)
    while len(c["targets"]) > 1:
        c2 = dict(c)
        c2["targets"] = c["targets"][1:] if len(c["targets"]) > 1 else c["targets"]
        if still_fails(c2):
            c = c2
        else:
            c2 = dict(c)
            c2["targets"] = [c["targets"][-1]]
            if still_fails(c2):
                c = c2
            break
    for i in range(len(c["events"]) - 1, -1, -1):
        c2 = dict(c)
        c2["events"] = c["events"][:i] + c["events"][i + 1:]
        if still_fails(c2):
            c = c2
    return c


def ulp(x):
    x = abs(x)
    if x == 0:
        return 5e-324
    m, e = math.frexp(x)
    return math.ldexp(1.0, e - 53)


def execute(case, ctx):
    import rebound
    from .. import rb
    from ..engine import digest_of
    cfg = dict(case["config"])
    integ = cfg["integrator"]
    viols, probes = [], {}

    def probe(k, n=1):
        probes[k] = probes.get(k, 0) + n

    def viol(oracle, clause, detail, key=None):
        viols.append(dict(oracle=oracle, clause=clause, detail=detail, key=key or ("%s:%s" % (oracle, clause))))

    rb.alloc_level(1)
    rb.clock_set(step_us=0)
    fixed = integ in FIXED
    exact = case["exact"]
    evs = case["events"]
    stop_ev = next((e for e in evs if e["kind"] == "stop"), None)
    escape = any(e["kind"] == "escape" for e in evs)
    nopart = any(e["kind"] == "noparticles" for e in evs)
    L2 = rb.L2
    L2.verif_hb_stop_at.argtypes = [rb.c_uint64]

    def mk():
        with rb.quiet():
            s = simgen.build(rebound, rb, cfg)
            s.t = case["t0"]
            if escape:
                s.exit_max_distance = 1e-3
            if nopart:
                del s.particles
            rb.hb_attach(s)
        return s
    sim = mk()
    dt_user = abs(sim.dt)
    calls = []
    steps_total0 = sim.steps_done
    ended = None
    stop_abs = None if stop_ev is None else steps_total0 + stop_ev["at"]
    overall = 1.0 if case["targets"][-1] >= case["t0"] else -1.0
    for ci, tgt in enumerate(case["targets"]):
        ctx.op(ci)
        if not exact and overall * sim.t >= overall * tgt and sim.steps_done > steps_total0:
            continue        # an earlier call (without exact finishing) already went past this target: asking for it now would integrate backwards
        t_b, dt_b, sd_b = sim.t, sim.dt, sim.steps_done
        Tb = rb.T(sim)
        s = 1.0 if tgt > t_b else (-1.0 if tgt < t_b else (1.0 if sim.dt > 0 else -1.0))
        cap = sd_b + min((int(abs(tgt - t_b) / dt_user) + 1) * (4 if fixed else 400) + 64, 6000)
        rb.hb_reset()
        L2.verif_hb_stop_at(min(cap, stop_abs) if stop_abs is not None else cap)
        exc = None
        try:
            with rb.quiet() as q:
                sim.integrate(tgt, exact_finish_time=exact)
        except (rebound.Escape, rebound.NoParticles, rebound.Encounter, rebound.Collision, rebound.GenericError) as e:
            exc = type(e).__name__
        except RuntimeError as e:
            exc = "RuntimeError"
        hb = rb.hb_take()
        t_a, dt_a, sd_a = sim.t, sim.dt, sim.steps_done
        calls.append(dict(n=sd_a - sd_b, exc=exc))
        tag = "call %d (%s, t %r -> target %r, dt %r, exact=%d)" % (ci, integ, t_b, tgt, dt_b, exact)
        if tgt == t_b:
            probe("target_equal")
        if s < 0:
            probe("backward")
        if abs(tgt - t_b) < dt_user and tgt != t_b:
            probe("dt_larger_than_interval")
        # ---- (g) status / events --------------------------------------------------------------------
        if nopart:
            probe("no_particles_event")
            if exc != "NoParticles":
                viol("status", "no particles: integrate did not report NoParticles", "%s: got %s" % (tag, exc), key="status:noparticles")
            elif sd_a != sd_b:
                viol("status", "steps were taken although the exit condition held at the first boundary", tag, key="status:steps-after-exit")
            ended = "noparticles"
            break
        if escape:
            probe("escape_event")
            if exc != "Escape":
                viol("status", "escape condition true at the first boundary but integrate did not report Escape", "%s: got %s" % (tag, exc), key="status:escape")
            elif sd_a != sd_b:
                viol("status", "steps were taken although the exit condition held at the first boundary", "%s: %d steps" % (tag, sd_a - sd_b), key="status:steps-after-exit")
            ended = "escape"
            break
        if exc is not None:
            viol("status", "integrate raised without an exit condition", "%s: %s" % (tag, exc), key="status:unexpected-exception")
            break
        stopped = stop_abs is not None and sd_a == stop_abs and sim._status == 5
        if stop_abs is not None and sd_b <= stop_abs and sd_a > stop_abs:
            viol("status", "a step was taken after the user stopped the run", "%s: stop requested at steps_done=%d, ended at %d" % (tag, stop_abs, sd_a), key="status:step-after-stop")
            break
        if not fixed:
            # time never moves against the direction of integration, whether or not an adaptive run finishes within the step cap
            for a, b in zip(hb, hb[1:]):
                if s * (b["t"] - a["t"]) < 0:
                    viol("time", "time moved against the direction of integration", "%s: %r -> %r" % (tag, a["t"], b["t"]), key="time:monotone")
                    break
            if viols:
                break
        if sd_a >= cap and not stopped and not fixed:
            return dict(viols=viols, sig=None, probes=probes, sim={"steps": int(sd_a - steps_total0), "calls": len(calls)})     # adaptive: inconclusive, not a contract violation
        if sd_a >= cap and not stopped:
            viol("termination", "integrate did not finish within the step cap", "%s: %d steps (cap %d)" % (tag, sd_a - sd_b, cap - sd_b), key="termination:%s" % ("fixed" if fixed else "adaptive"))
            break
        # ---- (b) monotone -----------------------------------------------------------------------------
        for a, b in zip(hb, hb[1:]):
            if s * (b["t"] - a["t"]) < 0:
                viol("time", "time moved against the direction of integration", "%s: %r -> %r" % (tag, a["t"], b["t"]), key="time:monotone")
                break
        if viols:
            break
        if stopped:
            probe("user_stop_event")
            # the step size is the user's again whatever ended the call (the stop may have landed on the shortened last step)
            if fixed and struct.pack("<d", dt_a) != struct.pack("<d", math.copysign(abs(dt_b), s)):
                viol("dt", "user step size not restored", "%s: stopped by the user at steps_done=%d; dt %r -> %r (expected %r)" % (tag, sd_a, dt_b, dt_a, math.copysign(abs(dt_b), s)), key="dt:restore:after-stop")
            if fixed and len(hb) >= 2 and abs(hb[-1]["t"] - hb[-2]["t"]) < abs(dt_b) * (1 - 1e-9):
                probe("stop_on_shortened_last_step")
            ended = "stop"
            break
        # ---- (d) no-op --------------------------------------------------------------------------------
        if tgt == t_b:
            if sd_a != sd_b or rb.T(sim) != Tb or t_a != t_b:
                viol("noop", "integrate to the current time changed the simulation", "%s: steps %d" % (tag, sd_a - sd_b), key="noop:changed")
                break
            if abs(dt_a) != abs(dt_b):
                viol("noop", "integrate to the current time changed dt", "%s: %r -> %r" % (tag, dt_b, dt_a), key="noop:dt")
                break
            continue
        # ---- (a) finish ---------------------------------------------------------------------------------
        if exact:
            tol = 1e-12 * abs(tgt) if tgt != 0 else 1e-12
            if abs(t_a - tgt) > tol:
                viol("finish", "exact_finish_time=1 but the call did not end at the target", "%s: ended at %r (off by %.3g)" % (tag, t_a, t_a - tgt), key="finish:exact")
                break
        else:
            if s * t_a < s * tgt:
                viol("finish", "call ended before the target", "%s: ended at %r" % (tag, t_a), key="finish:early")
                break
            if len(hb) >= 2 and s * hb[-2]["t"] >= s * tgt:
                viol("finish", "call went past the target by more than one step", "%s: previous boundary %r already past the target" % (tag, hb[-2]["t"]), key="finish:overshoot")
                break
        # ---- (c) dt restore ------------------------------------------------------------------------------
        if fixed:
            if struct.pack("<d", dt_a) != struct.pack("<d", math.copysign(abs(dt_b), s)):
                viol("dt", "user step size not restored", "%s: dt %r -> %r (expected %r)" % (tag, dt_b, dt_a, math.copysign(abs(dt_b), s)), key="dt:restore:fixed")
                break
        else:
            allowed = set([abs(dt_b)] + [abs(h["dt_last_done"]) for h in hb] + [abs(h["dt"]) for h in hb[:-1]])
            if exact and abs(dt_a) not in allowed and len(hb) >= 2:
                # the artificially shortened remainder must not be left behind
                rem = abs(tgt - hb[-2]["t"])
                if abs(abs(dt_a) - rem) <= 4 * ulp(rem) and rem < 0.5 * min(a for a in allowed if a > 0):
                    viol("dt", "the artificially shortened last step was left in dt", "%s: dt_after %r remainder %r" % (tag, dt_a, rem), key="dt:restore:adaptive")
                    break
            if exact and len(hb) >= 3 and any(abs(h["dt"]) < 0.5 * abs(hb[0]["dt"]) for h in hb[-2:-1]):
                probe("adaptive_shrunk_last_step")
        # ---- (e) step count, fixed step ---------------------------------------------------------------------
        if fixed and len(hb) >= 2:
            if len(hb) == 2:
                probe("first_step_is_last")
            for j, (a, b) in enumerate(zip(hb, hb[1:])):
                last = j == len(hb) - 2
                step = b["t"] - a["t"]
                if not last or not exact:
                    if abs(abs(step) - abs(dt_b)) > 4 * ulp(max(abs(a["t"]), abs(b["t"]))) + 4 * ulp(dt_b):
                        viol("steps", "a full step differs from the user's step size", "%s: boundary %d step %r" % (tag, j, step), key="steps:size")
                        break
                else:
                    if abs(step) > abs(dt_b) * (1 + 1e-12) + 4 * ulp(b["t"]):
                        viol("steps", "the last (shortened) step is longer than the user's step size", "%s: %r" % (tag, step), key="steps:last-too-long")
                        break
                # no boundary before the final one may already satisfy the exit test
                if not last and ((not exact and s * b["t"] >= s * tgt) or (exact and abs(b["t"] - tgt) <= (1e-12 * abs(tgt) if tgt else 1e-12) and b["t"] == tgt)):
                    viol("steps", "a step was taken although the target had been reached", "%s: boundary %d at %r" % (tag, j + 1, b["t"]), key="steps:extra")
                    break
            if viols:
                break
            nmax = int(abs(tgt - t_b) / abs(dt_b)) + 2
            if sd_a - sd_b > nmax:
                viol("steps", "more steps than the interval and step size imply", "%s: %d steps, at most %d expected" % (tag, sd_a - sd_b, nmax), key="steps:count")
                break
    if len(case["targets"]) > 1:
        probe("multi_call")
    # ---- (f) splitting ------------------------------------------------------------------------------------
    if not viols and ended is None and fixed and not exact and len(case["targets"]) > 1 and integ != "mercurius":
        ctx.op(100)
        rb.alloc_fill(0x00)         # the single-call run finds other garbage in its fresh heap memory than the split run
        one = mk()
        rb.hb_reset()
        L2.verif_hb_stop_at(2**62)
        try:
            with rb.quiet():
                one.integrate(case["targets"][-1], exact_finish_time=0)
            rb.alloc_fill(0xCB)
            if rb.T(one) != rb.T(sim):
                viol("split", "splitting the integration into consecutive calls changed the trajectory", "%s targets %s: t %r vs %r, steps %d vs %d" % (integ, case["targets"], sim.t, one.t, sim.steps_done, one.steps_done), key="split:%s" % integ)
        except (rebound.Escape, rebound.NoParticles, rebound.Encounter, rebound.Collision, rebound.GenericError, RuntimeError):
            pass
    rb.hb_reset()
    L2.verif_hb_stop_at(2**62)
    # ---- (h) exit condition that becomes true at a later boundary -----------------------------------------------------------------
    late = case.get("late")
    if late and not viols and not nopart and not escape:
        ctx.op(200)

        def measure(s_):
            raw = rb.particles_raw(s_)
            n_ = s_.N
            Q = [struct.unpack_from("<6d", raw, i * rb.PART.size) for i in range(n_)]
            P = [q[:3] for q in Q]
            far = max(math.sqrt(x * x + y * y + z * z) for (x, y, z) in P)
            near, appr = float("inf"), False
            for i in range(n_):
                for j in range(i + 1, n_):
                    d_ = math.sqrt((P[i][0] - P[j][0]) ** 2 + (P[i][1] - P[j][1]) ** 2 + (P[i][2] - P[j][2]) ** 2)
                    if d_ < near:
                        near = d_
                        rv_ = sum((Q[i][a] - Q[j][a]) * (Q[i][a + 3] - Q[j][a + 3]) for a in range(3))
                        vv_ = math.sqrt(sum((Q[i][a + 3] - Q[j][a + 3]) ** 2 for a in range(3))) * d_ + 1e-300
                        appr = rv_ < -1e-6 * vv_        # the closest pair is clearly approaching (the overlap searches ignore separating pairs)
            return far, near, appr
        try:
            with rb.quiet():
                ref = mk()
                sg = 1.0 if ref.dt > 0 else -1.0
                hist = [measure(ref) + (ref.t,)]     # (far, near, closest pair approaching, t)
                for _k in range(late["horizon"]):
                    ref.steps(1)
                    hist.append(measure(ref) + (ref.t,))
            col = 0 if late["kind"] == "escape" else 1
            # boundaries at which the quantity sets a new record by a clear margin (the reference synchronises after every step: rounding-level differences only)
            cands = []
            for k_ in range(2, len(hist) - 1):
                prev = [h[col] for h in hist[:k_]]
                if col == 0 and hist[k_][0] > max(prev) * (1 + 1e-6):
                    cands.append((k_, math.sqrt(max(prev) * hist[k_][0])))
                if col == 1 and hist[k_][1] < min(prev) * (1 - 1e-6) and hist[k_][1] > 0 and (late["kind"] != "collision" or hist[k_][2]):
                    cands.append((k_, math.sqrt(min(prev) * hist[k_][1])))
            if cands:
                k_, D = cands[late["pick"] % len(cands)]
                with rb.quiet():
                    L_ = mk()
                    if col == 0:
                        L_.exit_max_distance = D
                    elif late["kind"] == "collision":
                        # halting collision: every body gets radius D/2, so the pair that first comes closer than D overlaps at exactly that boundary
                        for q_ in range(L_.N):
                            L_.particles[q_].r = D / 2
                        L_.collision = "direct"
                        L_.collision_resolve = "halt"
                    else:
                        L_.exit_min_distance = D
                    sd0_ = int(L_.steps_done)
                    exc_ = None
                    try:
                        L_.integrate(hist[-1][3] + sg * 0.3 * dt_user, exact_finish_time=late["exact"])
                    except (rebound.Escape, rebound.Encounter, rebound.Collision) as e:
                        exc_ = type(e).__name__
                    except (rebound.NoParticles, rebound.Collision, rebound.GenericError, RuntimeError) as e:
                        exc_ = "other:" + type(e).__name__
                want = "Escape" if col == 0 else ("Collision" if late["kind"] == "collision" else "Encounter")
                probe("late_%s_event" % late["kind"])
                taken = int(L_.steps_done) - sd0_
                if exc_ != want:
                    viol("status", "exit condition became true at a step boundary but integrate() did not report it", "%s: %s threshold %r first exceeded at boundary %d of %d, integrate(exact=%d) ended with %s after %d steps" % (
                        integ, late["kind"], D, k_, len(hist) - 1, late["exact"], exc_, taken), key="status:late:%s:missed" % late["kind"])
                elif taken != k_:
                    viol("status", "exit condition reported at the wrong step boundary", "%s: %s threshold %r first exceeded at boundary %d, reported after %d steps (t %r, expected %r)" % (
                        integ, late["kind"], D, k_, taken, L_.t, hist[k_][3]), key="status:late:%s:boundary" % late["kind"])
                elif fixed and struct.pack("<d", abs(L_.dt)) != struct.pack("<d", dt_user):
                    viol("dt", "user step size not restored", "%s: after %s at boundary %d dt is %r (expected %r)" % (integ, want, k_, L_.dt, dt_user), key="dt:restore:after-exit")
        except (rebound.Escape, rebound.NoParticles, rebound.Encounter, rebound.Collision, rebound.GenericError, RuntimeError):
            pass
        rb.hb_reset()
        L2.verif_hb_stop_at(2**62)
    # ---- (i) exit condition already true when a follow-up call starts -----------------------------------------------------------------------
    pre = case.get("pre")
    if pre and not viols and not nopart and not escape:
        ctx.op(300)
        rb.hb_reset()
        L2.verif_hb_stop_at(2**62)
        try:
            with rb.quiet():
                P_ = mk()
                sg = 1.0 if (P_.dt > 0 or integ == "trace") else -1.0        # TRACE does not support backward integration (documented TODO in the source)
                P_.integrate(P_.t + sg * (pre["first"] + 0.5) * dt_user, exact_finish_time=pre["exact_first"])      # ends with SUCCESS
                raw = rb.particles_raw(P_)
                Q = [struct.unpack_from("<3d", raw, i * rb.PART.size) for i in range(P_.N - P_.N_var)]
                far = max([math.sqrt(x * x + y * y + z * z) for (x, y, z) in Q] or [0.0])
                near = min([math.dist(Q[i], Q[j]) for i in range(len(Q)) for j in range(i)] or [float("inf")])
                posed = False
                if pre["kind"] == "escape" and far > 1e-6 and math.isfinite(far):
                    P_.exit_max_distance = far * (1 - 1e-3)
                    posed = True
                elif pre["kind"] == "encounter" and 1e-9 < near < float("inf"):
                    P_.exit_min_distance = near * (1 + 1e-3)
                    posed = True
                if posed:
                    sd0_, t0_ = int(P_.steps_done), struct.pack("<d", P_.t)
                    exc_ = None
                    try:
                        P_.integrate(P_.t + sg * 4.3 * dt_user, exact_finish_time=pre["exact"])
                    except (rebound.Escape, rebound.Encounter) as e:
                        exc_ = type(e).__name__
                    except (rebound.NoParticles, rebound.Collision, rebound.GenericError, RuntimeError) as e:
                        exc_ = "other:" + type(e).__name__
                    want = "Escape" if pre["kind"] == "escape" else "Encounter"
                    probe("pre_true_%s" % pre["kind"])
                    taken = int(P_.steps_done) - sd0_
                    if exc_ != want:
                        viol("status", "exit condition true at the start of a follow-up integrate() was not reported", "%s: %s already true after a successful call of %d steps, integrate(exact=%d) ended with %s after %d steps" % (
                            integ, pre["kind"], sd0_, pre["exact"], exc_, taken), key="status:pre:%s:missed" % pre["kind"])
                    elif taken != 0 or struct.pack("<d", P_.t) != t0_:
                        viol("status", "exit condition reported at the wrong step boundary", "%s: %s already true at the start of a follow-up integrate() (after a successful call of %d steps) but reported after %d more steps" % (
                            integ, pre["kind"], sd0_, taken), key="status:pre:%s:boundary" % pre["kind"])
        except (rebound.Escape, rebound.NoParticles, rebound.Encounter, rebound.Collision, rebound.GenericError, RuntimeError):
            pass
        rb.hb_reset()
        L2.verif_hb_stop_at(2**62)
    nsteps = int(sim.steps_done - steps_total0)
    sig = None
    if not viols and (len(case["targets"]) > 1 or evs) and nsteps >= 2:
        sig = digest_of([integ, exact, [c_["n"] for c_ in calls], [e["kind"] for e in evs], case["t0"] != 0])
    return dict(viols=viols, sig=sig, probes=probes, sim={"steps": nsteps, "calls": len(calls)})
