"""C13 — collisions are detected completely and resolved conservatively.

The library shuffles the pending collision list with rand_r(&rand_seed) and then mutates the
particle array while iterating over that list, patching the indices of the entries not yet
processed.  Which patches run depends on the shuffle: rand_seed (a persisted public field) is the
seam, and each particle cloud is replayed under R different seeds = R different resolution orders.
"""
import ctypes
import math
import struct

ID = "C13"
TITLE = "Collisions are detected completely and resolved conservatively"
LEVEL = "exploration"
VARIANT = "io"
BUDGET = {"quick": 35, "thorough": 600}
RUN_CAP_S = 30.0
RULE = ("one run = one particle cloud with planted structure (isolated pairs, chains, cliques of 3-6 mutually overlapping spheres, one giant among dust, zero radii, pairs "
        "across a periodic image, fast crossing paths for the line modes) x collision mode {direct,line,tree,linetree} x boundary {none,open,periodic} x ghost rings x root "
        "boxes x keep_sorted x resolver {record-only, merge, hard sphere, remove-both}, replayed under R=6 (quick) / 32 (thorough) resolution orders. Non-trivial = some step had >=2 "
        "simultaneous collisions sharing a particle; distinct = digest of (mode, boundary, resolver, keep_sorted, cluster structure, orders with different processing sequence).")
COMPONENTS = {"real": ["collision.c searches (direct, line, tree, linetree), shuffle + index fix-up loop, built-in merge / hard-sphere resolvers", "particle removal paths, tree update, boundary wrap"],
              "simulated": ["internal resolution order (rand_seed seam)", "heap placement (audit after every step)"]}
ASSUMPTIONS = ["integrator leapfrog with gravity off: one step = straight-line drift + search; the state the search sees is captured by a post_timestep_modifications callback and the documented boundary wrap is applied to it by the model",
               "pairs within a relative band of 1e-9 of the overlap / approach thresholds are don't-care",
               "with a mutating resolver a must-pair may be skipped iff one of its members was removed or already merged earlier in the same step (built-in behaviour: last_collision == t)"]
PROBES = ["remove_both", "cluster_ge3", "simultaneous_collisions_sharing_particle", "pair_across_periodic_image", "giant_and_dust", "zero_radius", "orders_differ", "merges", "bounces", "tree_mode", "line_mode", "removed_then_remapped_index", "twins_planted", "backward_step_line_search", "bounce_across_moving_image"]

MODES = ["direct", "line", "tree", "linetree"]


def generate(rng, tier, index):
    c = rng.derive("cfg")
    mode = MODES[index % 4]
    boundary = c.choice(["none", "periodic", "periodic", "open"])
    if mode in ("tree", "linetree") and boundary == "none":
        boundary = c.choice(["periodic", "open"])
    nx, ny, nz = c.choice([(1, 1, 1), (2, 1, 1), (2, 2, 1), (1, 2, 2)])
    L = 10.0
    resolver = c.choice(["record", "merge", "merge", "hardsphere"])
    if resolver in ("record", "merge") and rng.derive("both").chance(0.15):
        resolver = "both"       # a user-supplied resolve routine that destroys both bodies (documented return value 3): two removals and two index fix-ups per collision
    keep_sorted = c.choice([0, 1]) if mode in ("direct", "line") else 0
    ng = c.choice([0, 1, 1, 2]) if boundary == "periodic" else 0
    if resolver == "hardsphere" and rng.derive("shear").chance(0.35):
        # shearing sheet: the radial images move with -1.5*OMEGA*Lx per box, so a pair across the x face is resolved in a frame with a velocity offset
        # (only the resolver-level clauses apply here: momentum, separating afterwards, energy at restitution 1, an approaching overlapping pair must bounce)
        boundary = "shear"
        ng = c.choice([1, 1, 2])
    dt = 0.01
    if mode in ("line", "linetree") and c.chance(0.35):
        dt = -0.01          # backward integration: the paths of the last step run the other way (the overlap searches' velocity-sign convention is left alone)
    ps = []
    hid = [100]
    Lx, Ly, Lz = L * nx, L * ny, L * nz

    def add(x, y, z, vx, vy, vz, r, m=None):
        hid[0] += 1
        ps.append(dict(m=(c.loguniform(1e-3, 1.0) if m is None else m), x=x, y=y, z=z, vx=vx, vy=vy, vz=vz, r=r, hash=hid[0]))

    def rpos(margin=0.5):
        return (c.uniform(-Lx / 2 + margin, Lx / 2 - margin), c.uniform(-Ly / 2 + margin, Ly / 2 - margin), c.uniform(-Lz / 2 + margin, Lz / 2 - margin))
    structure = []
    nclusters = c.randint(1, 4)
    for k in range(nclusters):
        kind = c.weighted([("pair", 3), ("chain", 2), ("clique", 3), ("giant", 1.5), ("image", 2 if boundary == "periodic" and ng else (6 if boundary == "shear" else 0)), ("cross", 2 if mode in ("line", "linetree") else 0), ("separating", 1),
                            ("twins", 3 if mode in ("tree", "linetree") else 0.5)])
        cx, cy, cz = rpos(1.5)
        r0 = c.loguniform(0.02, 0.3)
        structure.append(kind)
        if kind == "pair":
            r1 = r0 * c.choice([c.uniform(0.5, 1.0), 0.05, 0.01])
            sep = (r0 + r1) * c.choice([0.3, 0.75, 0.9, 0.97, 0.995])     # deep to grazing overlaps
            if c.chance(0.5):
                add(cx, cy, cz, 0.5, 0, 0, r0)
                add(cx + sep, cy, cz, -0.5, 0, 0, r1)
            else:       # the larger body has the higher index
                add(cx + sep, cy, cz, -0.5, 0, 0, r1)
                add(cx, cy, cz, 0.5, 0, 0, r0)
        elif kind == "separating":
            add(cx, cy, cz, -0.5, 0, 0, r0)
            add(cx + 1.5 * r0, cy, cz, 0.5, 0, 0, r0)
        elif kind == "chain":
            n = c.randint(3, 5)
            for i in range(n):
                add(cx + i * 1.6 * r0, cy + c.uniform(-0.1, 0.1) * r0, cz, -0.3 * (i - n / 2), 0, 0, r0)
        elif kind == "clique":
            n = c.randint(3, 6)
            for i in range(n):
                dx, dy, dz = c.uniform(-0.5, 0.5) * r0, c.uniform(-0.5, 0.5) * r0, c.uniform(-0.5, 0.5) * r0
                add(cx + dx, cy + dy, cz + dz, -3 * dx, -3 * dy, -3 * dz, r0 * c.uniform(0.7, 1.0))
        elif kind == "giant":
            R = c.uniform(0.5, 1.2)
            giant_last = c.chance(0.5)      # (index order matters to searches that record a pair from one side only)
            if not giant_last:
                add(cx, cy, cz, 0, 0, 0, R, m=10.0)
            for i in range(c.randint(2, 6)):
                th, ph = c.uniform(0, 6.28), c.uniform(0.3, 2.8)
                d = R * c.uniform(0.6, 0.99)
                dx, dy, dz = d * math.sin(ph) * math.cos(th), d * math.sin(ph) * math.sin(th), d * math.cos(ph)
                add(cx + dx, cy + dy, cz + dz, -dx, -dy, -dz, c.choice([0.0, 1e-3, 1e-2]), m=1e-6)
            if giant_last:
                add(cx, cy, cz, 0, 0, 0, R, m=10.0)
        elif kind == "image" and boundary == "shear":
            # pair across the radial face, both on (or near) the shear flow vy = -1.5*OMEGA*x, offset in y so that the separation has a y component
            y, z = c.uniform(-Ly / 2 + 1, Ly / 2 - 1), c.uniform(-Lz / 2 + 1, Lz / 2 - 1)
            r0 = max(r0, 0.15)
            xa, xb = Lx / 2 - 0.4 * r0, -Lx / 2 + 0.4 * r0
            off = c.choice([-0.6, -0.3, 0.3, 0.6]) * r0
            add(xa, y + off, z, c.choice([0.0, 0.3]), -1.5 * xa + c.uniform(-0.2, 0.2), 0, r0, m=c.choice([1.0, 3.0]))
            add(xb, y, z, c.choice([0.0, -0.3]), -1.5 * xb + c.uniform(-0.2, 0.2), 0, r0, m=1.0)
        elif kind == "image":
            y, z = c.uniform(-Ly / 2 + 1, Ly / 2 - 1), c.uniform(-Lz / 2 + 1, Lz / 2 - 1)
            add(Lx / 2 - 0.4 * r0, y, z, 0.2, 0, 0, r0)
            add(-Lx / 2 + 0.4 * r0, y, z, -0.2, 0, 0, r0)
        elif kind == "twins":
            # two tight twins (separation << radius, so each twin sits in a tiny non-leaf cell of its own) whose members overlap the
            # other twin's members only just: the tree walks must not prune the other twin's cell by looking at the searcher's radius alone
            r1 = r0 * c.uniform(0.8, 1.0)
            d = (r0 + r1) * c.choice([0.8, 0.9, 0.97, 0.995])
            ax = c.choice([(1, 0, 0), (0, 1, 0), (0, 0, 1), (0.6, 0.8, 0), (0.577, 0.577, 0.577)])
            dl = r0 * c.choice([1e-3, 1e-2, 5e-2])
            va = c.choice([0.05, 0.5])
            for sgn, rr in ((-1, r0), (1, r1)):
                for tw in range(c.randint(1, 2) if sgn < 0 else 2):
                    add(cx + sgn * 0.5 * d * ax[0] + tw * dl, cy + sgn * 0.5 * d * ax[1] + tw * dl * 0.7, cz + sgn * 0.5 * d * ax[2] - tw * dl * 0.4,
                        -sgn * va * ax[0], -sgn * va * ax[1], -sgn * va * ax[2], rr)
        elif kind == "cross":
            v = 0.8 * r0 / dt * c.uniform(2, 6)
            add(cx - 0.5 * v * dt, cy, cz, v, 0, 0, r0 * 0.5)
            add(cx, cy - 0.5 * v * dt + 0.1 * r0, cz, 0, v, 0, r0 * 0.5)
    for i in range(c.randint(0, 8)):
        x, y, z = rpos()
        add(x, y, z, c.uniform(-1, 1), c.uniform(-1, 1), c.uniform(-1, 1), c.choice([0.0, 0.01, 0.05]))
    for p in ps:    # keep everything inside the box
        for a, Lh in (("x", Lx / 2), ("y", Ly / 2), ("z", Lz / 2)):
            p[a] = max(-Lh + 1e-3, min(Lh - 1e-3, p[a]))
    na = rng.derive("nactive")
    n_active = na.randint(1, max(1, len(ps) - 1)) if (na.chance(0.3) and len(ps) >= 3) else None     # the searches and resolvers take no notice of N_active; the removal paths do
    seeds = [rng.derive("order", k).randint(1, 2**31 - 1) for k in range(6 if tier == "quick" else 32)]
    return dict(mode=mode, boundary=boundary, box=dict(size=L, nx=nx, ny=ny, nz=nz), nghost=ng, resolver=resolver, keep_sorted=keep_sorted, dt=dt,
                steps=c.randint(1, 4), particles=ps, structure=structure, seeds=seeds, n_active=n_active, eps=c.choice([1.0, 1.0, 0.5]), alloc=c.choice([1, 2, 3]))


def shrink(case, still_fails, viol=None):
    from ..engine import ddmin
    c = dict(case)
    if viol and viol.get("seed") is not None:
        c2 = dict(c)
        c2["seeds"] = [viol["seed"]]
        if still_fails(c2):
            c = c2

    def f(ps):
        c2 = dict(c)
        c2["particles"] = ps
        return len(ps) >= 2 and still_fails(c2)
    c["particles"] = ddmin(c["particles"], f)
    while c["steps"] > 1:
        c2 = dict(c)
        c2["steps"] -= 1
        if still_fails(c2):
            c = c2
        else:
            break
    return c


def execute(case, ctx):
    import rebound
    from rebound.simulation import CollisionS
    from .. import rb
    from ..engine import digest_of
    viols, probes = [], {}

    def probe(k, n=1):
        probes[k] = probes.get(k, 0) + n

    def viol(oracle, clause, detail, key=None, **kw):
        v = dict(oracle=oracle, clause=clause, detail=detail, key=key or ("%s:%s" % (oracle, clause)))
        v.update(kw)
        viols.append(v)

    rb.alloc_level(case.get("alloc", 2))
    rb.clock_set(step_us=0)
    L2 = rb.L2
    mode, boundary, resolver = case["mode"], case["boundary"], case["resolver"]
    box = case["box"]
    Lbox = (box["size"] * box["nx"], box["size"] * box["ny"], box["size"] * box["nz"])
    ng = case["nghost"]
    ring = 1 if ng >= 1 else 0
    shifts = [(i * Lbox[0], j * Lbox[1], k * Lbox[2]) for i in range(-ring, ring + 1) for j in range(-ring, ring + 1) for k in range(-ring, ring + 1)] if boundary == "periodic" else [(0.0, 0.0, 0.0)]
    line = mode in ("line", "linetree")
    if mode in ("tree", "linetree"):
        probe("tree_mode")
    if line:
        probe("line_mode")
    Sim = rebound.Simulation
    for fn in ("reb_collision_resolve_merge", "reb_collision_resolve_hardsphere"):
        getattr(L2, fn).argtypes = [ctypes.POINTER(Sim), CollisionS]
        getattr(L2, fn).restype = ctypes.c_int
    orders_seen = set()
    shared = False
    sig_parts = []

    def run_order(seed):
        nonlocal shared
        sim = Sim()
        sim.G = 0.0
        sim.configure_box(box["size"], box["nx"], box["ny"], box["nz"])
        sim.integrator = "leapfrog"
        sim.gravity = "none"
        sim.collision = mode
        if boundary != "none":
            sim.boundary = boundary
        if boundary == "shear":
            sim.ri_sei.OMEGA = 1.0
        sim.N_ghost_x = sim.N_ghost_y = sim.N_ghost_z = ng
        sim.collision_resolve_keep_sorted = case["keep_sorted"]
        sim.dt = case["dt"]
        sim.rand_seed = seed
        for p in case["particles"]:
            sim.add(m=p["m"], x=p["x"], y=p["y"], z=p["z"], vx=p["vx"], vy=p["vy"], vz=p["vz"], r=p["r"], hash=p["hash"])
        if case.get("n_active"):
            sim.N_active = case["n_active"]
        if case["eps"] != 1.0 and resolver == "hardsphere":
            sim.coefficient_of_restitution = lambda r, v: case["eps"]
        pre = []          # state seen by the search (before boundary wrap), per step
        ledger = []       # (step, h1, h2, gb, outcome)
        stepno = [0]
        err = []

        def snap(simp):
            s = simp.contents
            raw = rb.particles_raw(s)
            st = []
            for i in range(s.N):
                o = i * rb.PART.size
                x, y, z, vx, vy, vz = struct.unpack_from("<6d", raw, o)
                m, r, lc = struct.unpack_from("<3d", raw, o + rb.PART.m["m"][0])
                h = struct.unpack_from("<I", raw, o + rb.PART.m["hash"][0])[0]
                st.append((h, x, y, z, vx, vy, vz, m, r))
            pre.append(st)
        sim.post_timestep_modifications = snap

        def resolve(simp, c):
            s = simp.contents
            n = s.N
            if not (0 <= c.p1 < n and 0 <= c.p2 < n) or c.p1 == c.p2:
                err.append("resolver called with invalid indices p1=%d p2=%d N=%d" % (c.p1, c.p2, n))
                return 0
            p1, p2 = s.particles[c.p1], s.particles[c.p2]
            h1, h2 = p1.hash.value, p2.hash.value
            before = (p1.m, p1.vx, p1.vy, p1.vz, p2.m, p2.vx, p2.vy, p2.vz, p1.x + c.gb.x - p2.x, p1.y + c.gb.y - p2.y, p1.z + c.gb.z - p2.z, c.gb.vx, c.gb.vy, c.gb.vz)
            if resolver == "merge":
                out = L2.reb_collision_resolve_merge(simp, c)
            elif resolver == "hardsphere":
                out = L2.reb_collision_resolve_hardsphere(simp, c)
                q1, q2 = s.particles[c.p1], s.particles[c.p2]
                m1, v1x, v1y, v1z, m2, v2x, v2y, v2z, dx, dy, dz, gvx, gvy, gvz = before
                # momentum of the pair
                for a, b0, b1 in ((0, m1 * v1x + m2 * v2x, m1 * q1.vx + m2 * q2.vx), (1, m1 * v1y + m2 * v2y, m1 * q1.vy + m2 * q2.vy), (2, m1 * v1z + m2 * v2z, m1 * q1.vz + m2 * q2.vz)):
                    sc = abs(m1) * (abs(v1x) + abs(v1y) + abs(v1z)) + abs(m2) * (abs(v2x) + abs(v2y) + abs(v2z)) + 1e-300
                    if abs(b0 - b1) > 1e-11 * sc:
                        err.append("hard-sphere bounce changed the pair's momentum (axis %d: %r -> %r)" % (a, b0, b1))
                bounced = (q1.vx, q1.vy, q1.vz, q2.vx, q2.vy, q2.vz) != (v1x, v1y, v1z, v2x, v2y, v2z)
                if not all(math.isfinite(v_) for v_ in (q1.vx, q1.vy, q1.vz, q2.vx, q2.vy, q2.vz)):
                    err.append("non-finite velocities after a hard-sphere bounce (radii %r, %r)" % (p1.r, p2.r))
                if (gvx, gvy, gvz) != (0.0, 0.0, 0.0):
                    probe("bounce_across_moving_image")
                rsum = p1.r + p2.r
                d2_ = dx * dx + dy * dy + dz * dz
                rv0_ = (v1x + gvx - v2x) * dx + (v1y + gvy - v2y) * dy + (v1z + gvz - v2z) * dz
                vv_ = (v1x + gvx - v2x) ** 2 + (v1y + gvy - v2y) ** 2 + (v1z + gvz - v2z) ** 2
                if not bounced and d2_ < rsum * rsum * (1 - 1e-9) and rv0_ < -1e-9 * math.sqrt(vv_ * d2_ + 1e-300) and m1 > 0 and m2 > 0:
                    err.append("overlapping pair approaching in the frame of the image was left untouched by the hard-sphere resolver (v.n %r, image velocity (%r,%r,%r))" % (rv0_, gvx, gvy, gvz))
                if bounced:
                    probe("bounces")
                    rvn = (q1.vx + gvx - q2.vx) * dx + (q1.vy + gvy - q2.vy) * dy + (q1.vz + gvz - q2.vz) * dz
                    rv0 = (v1x + gvx - v2x) * dx + (v1y + gvy - v2y) * dy + (v1z + gvz - v2z) * dz
                    if rvn < -1e-12 * abs(rv0):
                        err.append("pair still approaching after the bounce (v.n %r -> %r)" % (rv0, rvn))
                    if case["eps"] == 1.0:
                        # (in the frame of the image: particle 1 carries the ghost box velocity)
                        k0 = m1 * ((v1x + gvx)**2 + (v1y + gvy)**2 + (v1z + gvz)**2) + m2 * (v2x**2 + v2y**2 + v2z**2)
                        k1 = m1 * ((q1.vx + gvx)**2 + (q1.vy + gvy)**2 + (q1.vz + gvz)**2) + m2 * (q2.vx**2 + q2.vy**2 + q2.vz**2)
                        # kinetic energy is frame dependent: only meaningful without a ghost velocity shift (periodic boxes have none)
                        if abs(k0 - k1) > 1e-10 * (abs(k0) + 1e-300):
                            err.append("elastic bounce changed the pair's kinetic energy (%r -> %r)" % (k0, k1))
            elif resolver == "both":
                out = 3
            else:
                out = 0
            ledger.append((stepno[0], h1, h2, (c.gb.x, c.gb.y, c.gb.z), out))
            return out
        sim.collision_resolve = resolve
        states_after = []
        for st in range(case["steps"]):
            stepno[0] = st
            ctx.op(st)
            with rb.quiet() as q:
                try:
                    sim.steps(1)
                except RuntimeError as e:
                    err.append("step raised: %s" % e)
            if mode in ("tree", "linetree"):
                with rb.quiet():
                    sim.update_tree()
            raw = rb.particles_raw(sim)
            cur = []
            for i in range(sim.N):
                o = i * rb.PART.size
                x, y, z, vx, vy, vz = struct.unpack_from("<6d", raw, o)
                m, r, lc = struct.unpack_from("<3d", raw, o + rb.PART.m["m"][0])
                h = struct.unpack_from("<I", raw, o + rb.PART.m["hash"][0])[0]
                cur.append((h, x, y, z, vx, vy, vz, m, r))
            states_after.append(cur)
            a = rb.heap_audit()
            if a:
                err.append("heap: %s" % a)
            if err:
                break
        sim.collision_resolve = "merge"       # drop the python callback before the object dies
        return pre, ledger, states_after, err

    def wrap(st):
        """documented boundary behaviour applied to the pre-search state"""
        out = []
        for (h, x, y, z, vx, vy, vz, m, r) in st:
            if boundary == "periodic":
                c = [x, y, z]
                for a in range(3):
                    while c[a] > Lbox[a] / 2:
                        c[a] -= Lbox[a]
                    while c[a] < -Lbox[a] / 2:
                        c[a] += Lbox[a]
                x, y, z = c
            elif boundary == "open":
                if abs(x) > Lbox[0] / 2 or abs(y) > Lbox[1] / 2 or abs(z) > Lbox[2] / 2:
                    continue
            out.append((h, x, y, z, vx, vy, vz, m, r))
        return out

    def detect(st):
        """independent O(N^2 x images) detector -> (must, maybe) sets of frozenset({h1,h2})"""
        must, maybe = set(), set()
        n = len(st)
        dtl = case["dt"]
        for i in range(n):
            hi, xi, yi, zi, vxi, vyi, vzi, mi, ri = st[i]
            for j in range(i + 1, n):
                hj, xj, yj, zj, vxj, vyj, vzj, mj, rj = st[j]
                sr = ri + rj
                for (sx, sy, sz) in shifts:
                    for sgn in (1, -1):
                        dx, dy, dz = xi + sgn * sx - xj, yi + sgn * sy - yj, zi + sgn * sz - zj
                        dvx, dvy, dvz = vxi - vxj, vyi - vyj, vzi - vzj
                        if not line:
                            d2 = dx * dx + dy * dy + dz * dz
                            if sr <= 0 or d2 > sr * sr * (1 + 1e-9):
                                continue
                            s = dvx * dx + dvy * dy + dvz * dz
                            nrm = math.sqrt((dvx * dvx + dvy * dvy + dvz * dvz) * d2) + 1e-300
                            if s > 1e-9 * nrm:
                                continue
                            key = frozenset((hi, hj))
                            if d2 < sr * sr * (1 - 1e-9) and s < -1e-9 * nrm:
                                must.add(key)
                            else:
                                maybe.add(key)
                        else:
                            # straight-line paths over the last step
                            r1 = dx * dx + dy * dy + dz * dz
                            ex, ey, ez = dx - dtl * dvx, dy - dtl * dvy, dz - dtl * dvz
                            r2 = ex * ex + ey * ey + ez * ez
                            vv = dvx * dvx + dvy * dvy + dvz * dvz
                            rmin = min(r1, r2)
                            if vv > 0:
                                tc = (dx * dvx + dy * dvy + dz * dvz) / vv
                                if 0 <= tc / dtl <= 1:
                                    fx, fy, fz = dx - tc * dvx, dy - tc * dvy, dz - tc * dvz
                                    rmin = min(rmin, fx * fx + fy * fy + fz * fz)
                            key = frozenset((hi, hj))
                            if rmin < sr * sr * (1 - 1e-9):
                                must.add(key)
                            elif rmin <= sr * sr * (1 + 1e-9):
                                maybe.add(key)
                        if (sx, sy, sz) != (0.0, 0.0, 0.0) and key in must:
                            probe("pair_across_periodic_image")
        return must, maybe - must

    base_pre = None
    for oi, seed in enumerate(case["seeds"]):
        pre, ledger, after, err = run_order(seed)
        tagm = "order seed %d (%s/%s/%s keep_sorted=%d)" % (seed, mode, boundary, resolver, case["keep_sorted"])
        if err:
            viol("resolve", "resolution step failed", "%s: %s" % (tagm, err[0]), key="resolve:" + err[0].split(":")[0][:40], seed=seed)
            break
        orders_seen.add(tuple((l[1], l[2]) for l in ledger))
        if boundary == "shear":
            continue        # time dependent ghost shift: completeness / ledger clauses are not applied (see DESIGN 11.4), the resolver-level clauses above are
        # ---- 1. completeness, step by step -------------------------------------------------------------
        bad = False
        for st in range(len(pre)):
            seen_state = wrap(pre[st])
            must, maybe = detect(seen_state)
            if any(r == 0.0 for (h, x, y, z, vx, vy, vz, m, r) in seen_state):
                probe("zero_radius")
            if st == 0 and case["dt"] < 0:
                probe("backward_step_line_search")
            if st == 0 and "twins" in case.get("structure", ()):
                probe("twins_planted")
            rs = sorted(r for (h, x, y, z, vx, vy, vz, m, r) in seen_state)
            if len(rs) >= 3 and rs[-1] > 20 * max(rs[-2], 1e-12):
                probe("giant_and_dust")
            reported = set(frozenset((l[1], l[2])) for l in ledger if l[0] == st)
            cnt = {}
            for pr in must:
                for h in pr:
                    cnt[h] = cnt.get(h, 0) + 1
            if any(v >= 2 for v in cnt.values()):
                probe("simultaneous_collisions_sharing_particle")
                shared = True
            if any(v >= 3 for v in cnt.values()):
                probe("cluster_ge3")
            gone = set()
            if resolver in ("merge", "both"):
                # members removed / already merged earlier in this step excuse later pairs
                for l in ledger:
                    if l[0] == st and l[4]:
                        gone.add(l[1]); gone.add(l[2])
            missing = [tuple(sorted(p)) for p in must if p not in reported and not (p & gone)]
            if missing:
                viol("complete", "an overlapping, approaching pair was not handed to the resolve routine", "%s step %d: pairs (by hash) %s of %d must-pairs; reported %d" % (tagm, st, missing[:4], len(must), len(reported)),
                     key="complete:missing:%s" % mode, seed=seed)
                bad = True
                break
            extra = [tuple(sorted(p)) for p in reported if p not in must and p not in maybe]
            if extra and resolver == "record":
                viol("complete", "a pair that neither overlaps nor crossed paths was handed to the resolve routine", "%s step %d: %s" % (tagm, st, extra[:4]), key="complete:spurious:%s" % mode, seed=seed)
                bad = True
                break
            # ---- 2. merge ledger against the step's outcome ------------------------------------------------
            if resolver == "merge":
                model = {h: dict(m=m, px=m * vx, py=m * vy, pz=m * vz, mx=m * x, my=m * y, mz=m * z) for (h, x, y, z, vx, vy, vz, m, r) in seen_state}
                removed = set()
                merged_this_step = set()
                for l in ledger:
                    if l[0] != st:
                        continue
                    _, h1, h2, gb, out = l
                    if h1 in removed or h2 in removed:
                        viol("ledger", "resolve routine was handed a particle that had already been removed in this step", "%s step %d: pair (%d,%d)" % (tagm, st, h1, h2), key="ledger:removed-particle-reused", seed=seed)
                        bad = True
                        break
                    if out in (1, 2):
                        probe("merges")
                        dead, keep = (h1, h2) if out == 1 else (h2, h1)
                        if dead in merged_this_step or keep in merged_this_step:
                            viol("ledger", "a body took part in two mergers in one step", "%s step %d: pair (%d,%d), already merged in this step: %s" % (
                                tagm, st, h1, h2, sorted(merged_this_step & {h1, h2})), key="ledger:merged-twice", seed=seed)
                            bad = True
                            break
                        merged_this_step.update((dead, keep))
                        if dead not in model or keep not in model:
                            viol("ledger", "merge names an unknown particle", "%s" % tagm, seed=seed)
                            bad = True
                            break
                        for k in ("m", "px", "py", "pz", "mx", "my", "mz"):
                            model[keep][k] += model[dead][k]
                        del model[dead]
                        removed.add(dead)
                if bad:
                    break
                got = {h: (m, vx, vy, vz, x, y, z) for (h, x, y, z, vx, vy, vz, m, r) in after[st]}
                if len(got) != len(after[st]):
                    viol("ledger", "a particle appears twice after the step", tagm, key="ledger:duplicate", seed=seed)
                    bad = True
                    break
                if set(got) != set(model):
                    viol("ledger", "surviving particles differ from the merge ledger", "%s step %d: lost %s, unexpected %s (merges %d, N %d -> %d)" % (
                        tagm, st, sorted(set(model) - set(got))[:5], sorted(set(got) - set(model))[:5], len(removed), len(seen_state), len(after[st])), key="ledger:survivors", seed=seed)
                    bad = True
                    break
                for h, mm in model.items():
                    m, vx, vy, vz, x, y, z = got[h]
                    if abs(m - mm["m"]) > 1e-13 * abs(mm["m"]) + 1e-300:
                        viol("ledger", "mass of a survivor differs from the sum of its merged constituents", "%s step %d: hash %d mass %r expected %r" % (tagm, st, h, m, mm["m"]), key="ledger:mass", seed=seed)
                        bad = True
                        break
                    sc = abs(mm["m"]) * (abs(vx) + abs(vy) + abs(vz) + 1e-300) + abs(mm["px"]) + abs(mm["py"]) + abs(mm["pz"])
                    if abs(m * vx - mm["px"]) > 1e-11 * sc or abs(m * vy - mm["py"]) > 1e-11 * sc or abs(m * vz - mm["pz"]) > 1e-11 * sc:
                        viol("ledger", "momentum of a survivor differs from the sum of its merged constituents", "%s step %d: hash %d" % (tagm, st, h), key="ledger:momentum", seed=seed)
                        bad = True
                        break
                    # mass weighted position (in the library's own, unshifted coordinates); the merged particle may be wrapped by the next boundary check only
                    sc = abs(mm["m"]) * (abs(x) + abs(y) + abs(z) + 1e-300) + abs(mm["mx"]) + abs(mm["my"]) + abs(mm["mz"])
                    if h in [l[1] for l in ledger if l[0] == st and l[4]] + [l[2] for l in ledger if l[0] == st and l[4]]:
                        if abs(m * x - mm["mx"]) > 1e-11 * sc or abs(m * y - mm["my"]) > 1e-11 * sc or abs(m * z - mm["mz"]) > 1e-11 * sc:
                            viol("ledger", "centre of mass of a merged particle differs from its constituents", "%s step %d: hash %d" % (tagm, st, h), key="ledger:com", seed=seed)
                            bad = True
                            break
                if bad:
                    break
            elif resolver == "both":
                # every resolved pair is destroyed: the survivors are exactly the bodies never handed over, untouched; nobody is handed over twice
                removed = set()
                for l in ledger:
                    if l[0] != st:
                        continue
                    _, h1, h2, gb, out = l
                    if h1 in removed or h2 in removed:
                        viol("ledger", "resolve routine was handed a particle that had already been removed in this step", "%s step %d: pair (%d,%d)" % (tagm, st, h1, h2), key="ledger:removed-particle-reused", seed=seed)
                        bad = True
                        break
                    probe("remove_both")
                    removed.update((h1, h2))
                if bad:
                    break
                want = {h: m for (h, x, y, z, vx, vy, vz, m, r) in seen_state if h not in removed}
                got = {a[0]: a[7] for a in after[st]}
                if len(got) != len(after[st]):
                    viol("ledger", "a particle appears twice after the step", tagm, key="ledger:duplicate", seed=seed)
                    bad = True
                    break
                if got != want:
                    viol("ledger", "surviving particles differ from the removal ledger", "%s step %d: lost %s, unexpected %s (pairs destroyed %d, N %d -> %d)" % (
                        tagm, st, sorted(set(want) - set(got))[:5], sorted(set(got) - set(want))[:5], len(removed) // 2, len(seen_state), len(after[st])), key="ledger:survivors", seed=seed)
                    bad = True
                    break
            elif resolver in ("record", "hardsphere"):
                if len(after[st]) != len(seen_state) or set(a[0] for a in after[st]) != set(s_[0] for s_ in seen_state):
                    viol("ledger", "a non-removing resolver changed the particle set", "%s step %d: %d -> %d" % (tagm, st, len(seen_state), len(after[st])), key="ledger:set-changed", seed=seed)
                    bad = True
                    break
        if bad:
            break
    if len(orders_seen) > 1:
        probe("orders_differ", len(orders_seen))
    sig = None
    if shared and not viols:
        sig = digest_of([mode, boundary, resolver, case["keep_sorted"], case["structure"], len(case["particles"]), len(orders_seen)])
    return dict(viols=viols, sig=sig, probes=probes, sim={"steps": case["steps"] * len(case["seeds"]), "orders": len(case["seeds"])})
