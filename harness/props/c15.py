"""C15 — boundary conditions and the spatial tree keep every particle accounted for.

Seeded step / crossing / removal histories in boxes of 1-3 root cells per axis.  After every event:
boundary invariants against exactly recomputed drift positions, and a read-only C walk of the tree
(sim/oracle_c.c) at the two moments the tree is in use: inside additional_forces right after the
gravity walk, and after an explicit update_tree following the step.
"""
import ctypes
import os
import struct

ID = "C15"
TITLE = "Boundary conditions and the spatial tree keep every particle accounted for"
LEVEL = "exploration"
VARIANT = "io"
BUDGET = {"quick": 35, "thorough": 600}
RUN_CAP_S = 30.0
RULE = ("one run = box layout (1-3 root boxes per axis) x boundary {periodic, shear, open} x gravity {none, tree} x collisions {none, tree+merge} with N<=60 (150 thorough) particles, "
        "speeds up to 3.5 box lengths per step, particles planted on faces / edges / corners of cells and root boxes, and a seeded history of steps, adds, unsorted removals, "
        "remove-all + re-add and manual tree updates. Non-trivial = at least one particle crossed a root-box border or left the box; distinct = digest of (layout, boundary, "
        "modules, event kinds, crossing counts).")
COMPONENTS = {"real": ["boundary.c reb_boundary_check", "tree.c incremental maintenance (swap-removal, re-insertion, derefinement), gravity data", "particle add/remove with a tree", "leapfrog / SEI drift"],
              "simulated": ["event arrival between steps", "heap placement (freed cells are poisoned, audit after every step)"]}
ASSUMPTIONS = ["gravity off for the exact-drift clauses: the drift of leapfrog is recomputed with the same two half-step additions",
               "tree invariants are evaluated only when the tree is in use (right after the gravity walk, or after an explicit update_tree): between steps the tree is legitimately one drift behind",
               "coincident positions are excluded (documented restriction of the tree)"]
PROBES = ["root_box_crossing", "multi_box_crossing", "left_open_box", "shear_radial_wrap", "planted_on_face", "tree_checked_in_force_callback", "tree_checked_after_update", "merge_with_tree",
          "removed_with_tree", "remove_all_readd", "reinsertion_reordered_particles"]


def generate(rng, tier, index):
    c = rng.derive("cfg")
    nx, ny, nz = c.choice([(1, 1, 1), (2, 1, 1), (2, 2, 1), (2, 2, 2), (3, 1, 2), (1, 3, 1), (3, 3, 3)])
    size = c.choice([1.0, 2.0, 10.0])
    boundary = ["periodic", "shear", "open"][index % 3]
    gravity = c.choice(["none", "none", "tree"])
    collision = c.choice(["none", "none", "tree"]) if boundary != "shear" else "none"
    integ = "leapfrog"
    if boundary == "shear" and c.chance(0.4):
        integ = "sei"
    if gravity == "none" and collision == "none" and c.chance(0.5):
        collision = "tree_norad"        # tree in use without any physical effect (radius 0): exact drift clauses stay valid
    dt = c.choice([1e-3, 1e-2, 0.1])
    n = c.randint(2, 60 if tier == "quick" else 150)
    Lx, Ly, Lz = size * nx, size * ny, size * nz
    fast = c.choice([0.0, 0.3, 1.2, 3.5])
    upper = int(os.environ.get("VERIF_C15_UPPER", "1")) and c.chance(0.15)     # particles exactly on the upper faces x = +L/2 of the box
    ps = []
    for i in range(n):
        kind = c.weighted([("random", 8), ("face", 1), ("edge", 0.5), ("corner", 0.3), ("cellface", 1)])
        x, y, z = c.uniform(-0.499, 0.499) * Lx, c.uniform(-0.499, 0.499) * Ly, c.uniform(-0.499, 0.499) * Lz
        up = 0.5 if upper else -0.5
        if kind == "face":
            x = c.choice([-0.5, up]) * Lx
        elif kind == "edge":
            x, y = c.choice([-0.5, up]) * Lx, c.choice([-0.5, up]) * Ly
        elif kind == "corner":
            x, y, z = c.choice([-0.5, up]) * Lx, c.choice([-0.5, up]) * Ly, c.choice([-0.5, up]) * Lz
        elif kind == "cellface":
            x = -Lx / 2 + size * c.randint(0, nx - 1) * c.choice([1.0, 0.5, 0.25])
        vs = fast * min(Lx, Ly, Lz) / dt if c.chance(0.3) else 0.05 * size / dt
        # (some test particles: a cell whose only remaining occupant is massless must not keep the mass of those who left)
        ps.append(dict(m=(0.0 if c.chance(0.15) else c.loguniform(1e-9, 1e-6)), x=x, y=y, z=z, vx=c.uniform(-vs, vs), vy=c.uniform(-vs, vs), vz=c.uniform(-vs, vs),
                       r=(c.loguniform(1e-3, 3e-2) * size if collision == "tree" else 0.0), hash=1000 + i, kind=kind))
    if collision == "tree" and rng.derive("ghostmerge").chance(0.25):
        # a massless particle (lower index) overlapping a massive one, both at rest on a box edge: the merger moves the survivor exactly onto the victim, which
        # is only flagged at that point and still sits in its leaf
        gm = rng.derive("ghostmerge")
        e_ = 0.5        # the upper edge: a coordinate on the upper face compares like NaN in the octant selection at every level
        zz = gm.uniform(-0.4, 0.4) * Lz
        rr = 0.02 * size
        dz_ = gm.choice([0.8, -0.8]) * rr       # (which of the two leaves the tree update visits first depends on the sign)
        ps.append(dict(m=0.0, x=e_ * Lx, y=e_ * Ly, z=zz + dz_, vx=0.0, vy=0.0, vz=0.0, r=rr, hash=1000 + len(ps), kind="ghostmerge"))
        ps.append(dict(m=1e-7, x=e_ * Lx, y=e_ * Ly, z=zz, vx=0.0, vy=0.0, vz=0.0, r=rr, hash=1000 + len(ps), kind="ghostmerge"))
    o = rng.derive("ops")
    ops = []
    nh = [5000]
    for i in range(o.randint(2, 12)):
        k = o.weighted([("steps", 12), ("add", 3), ("remove", 3), ("update_tree", 2), ("remove_all", 0.5)])
        if k == "steps":
            ops.append(dict(op="steps", n=o.randint(1, 6)))
        elif k == "add":
            nh[0] += 1
            ops.append(dict(op="add", p=dict(m=1e-8, x=o.uniform(-0.49, 0.49) * Lx, y=o.uniform(-0.49, 0.49) * Ly, z=o.uniform(-0.49, 0.49) * Lz,
                                             vx=o.uniform(-1, 1) * size / dt * 0.1, vy=0.0, vz=0.0, r=0.0, hash=nh[0])))
        elif k == "remove":
            ops.append(dict(op="remove", pick=o.randint(0, 1000)))
        elif k == "remove_all":
            ops.append(dict(op="remove_all"))
            for j in range(o.randint(1, 4)):
                nh[0] += 1
                ops.append(dict(op="add", p=dict(m=1e-8, x=o.uniform(-0.49, 0.49) * Lx, y=o.uniform(-0.49, 0.49) * Ly, z=o.uniform(-0.49, 0.49) * Lz,
                                                 vx=0.0, vy=o.uniform(-1, 1) * size / dt * 0.1, vz=0.0, r=0.0, hash=nh[0])))
        else:
            ops.append(dict(op="update_tree"))
    ops.append(dict(op="steps", n=o.randint(1, 4)))
    return dict(box=dict(size=size, nx=nx, ny=ny, nz=nz), boundary=boundary, gravity=gravity, collision=collision, integrator=integ, dt=dt, particles=ps, ops=ops,
                omega=1.0, alloc=c.choice([1, 2, 3]), upper=bool(upper))


def execute(case, ctx):
    import rebound
    from .. import rb
    from ..engine import digest_of
    viols, probes = [], {}

    def probe(k, n=1):
        probes[k] = probes.get(k, 0) + n

    def viol(oracle, clause, detail, key=None):
        viols.append(dict(oracle=oracle, clause=clause, detail=detail, key=key or ("%s:%s" % (oracle, clause))))

    rb.alloc_level(case.get("alloc", 2))
    rb.clock_set(step_us=0)
    L2 = rb.L2
    box = case["box"]
    L = (box["size"] * box["nx"], box["size"] * box["ny"], box["size"] * box["nz"])
    boundary, gravity, collision, integ = case["boundary"], case["gravity"], case["collision"], case["integrator"]
    dt = case["dt"]
    OM = case["omega"]
    uses_tree = gravity == "tree" or collision in ("tree", "tree_norad")
    exact = gravity == "none" and collision in ("none", "tree_norad") and integ == "leapfrog"
    sim = rebound.Simulation()
    sim.G = 1.0
    sim.configure_box(box["size"], box["nx"], box["ny"], box["nz"])
    sim.integrator = integ
    if integ == "sei":
        sim.ri_sei.OMEGA = OM
    sim.ri_sei.OMEGA = OM
    sim.gravity = gravity
    if collision in ("tree", "tree_norad"):
        sim.collision = "tree"
        sim.collision_resolve = "merge"
    sim.boundary = boundary
    if boundary in ("periodic", "shear"):
        sim.N_ghost_x = sim.N_ghost_y = 1
        sim.N_ghost_z = 1 if boundary == "periodic" else 0
    sim.dt = dt
    sim.softening = 1e-3 * box["size"]
    planted = 0
    seen_xyz = set()
    with rb.quiet():
        for p in case["particles"]:
            # coincident positions are a documented restriction of the tree; opposite faces / corners are the same point of a periodic box
            key = tuple(round(((p[a] + Lh / 2.) % Lh) / Lh, 12) % 1.0 for a, Lh in (("x", L[0]), ("y", L[1]), ("z", L[2])))
            if key in seen_xyz:
                continue
            seen_xyz.add(key)
            try:
                sim.add(m=p["m"], x=p["x"], y=p["y"], z=p["z"], vx=p["vx"], vy=p["vy"], vz=p["vz"], r=p["r"], hash=p["hash"])
                if p.get("kind") in ("face", "edge", "corner"):
                    planted += 1
            except RuntimeError:
                pass
    if planted:
        probe("planted_on_face", planted)
    if uses_tree:
        rb.setf_ptr(sim, "additional_forces", ctypes.cast(L2.verif_force_treecheck, ctypes.c_void_p).value)
    L2.verif_treecb_reset(1 if gravity == "tree" else 0)

    def state():
        raw = rb.particles_raw(sim)
        out = {}
        order = []
        for i in range(sim.N):
            o = i * rb.PART.size
            x, y, z, vx, vy, vz = struct.unpack_from("<6d", raw, o)
            h = struct.unpack_from("<I", raw, o + rb.PART.m["hash"][0])[0]
            if h in out:
                viol("account", "a particle (hash) appears twice in the particle array", "hash %d" % h, key="account:duplicate")
            out[h] = (x, y, z, vx, vy, vz)
            order.append(h)
        return out, order

    def near_border():
        """is some particle exactly on, or within a few rounding errors of, a cell / root-box border (any refinement level)?"""
        st, _ = state()
        for h, (x, y, z, vx, vy, vz) in st.items():
            for a, (c, Lh) in enumerate(((x, L[0]), (y, L[1]), (z, L[2]))):
                if c != c:
                    continue
                u = (c + Lh / 2.) / box["size"]
                for k in range(0, 40):
                    v = u * (1 << k)
                    if abs(v - round(v)) <= 8e-16 * max(1.0, abs(v)) * (1 << min(k, 3)):
                        return True
                    if abs(v) > 1e15:
                        break
        return False

    def tree_key(base, msg):
        if near_border():
            # inside-cell test (|x - centre| > w/2) and octant / root-box arithmetic (floor((x + L/2)/root_size), x < centre) disagree for such a particle
            return "tree:particle-within-rounding-of-a-cell-border"
        return base + msg

    kinds = []
    crossings = 0
    nontrivial = False
    for k, op in enumerate(case["ops"]):
        ctx.op(k)
        kinds.append(op["op"])
        try:
            with rb.quiet() as q:
                if op["op"] == "steps":
                    for s in range(op["n"]):
                        before, order0 = state()
                        t0 = sim.t
                        N0 = sim.N
                        sim.steps(1)
                        after, order1 = state()
                        if viols:
                            break
                        # ---- boundary invariants ------------------------------------------------------------------
                        if boundary in ("periodic", "shear"):
                            for h, (x, y, z, vx, vy, vz) in after.items():
                                # (with mergers the survivor is placed at the centre of mass after the boundary check of the step: one ulp of rounding for
                                #  two particles sitting on a face; see the open-boundary clause below)
                                tolb = 1 + (4e-15 if collision != "none" else 0.0)
                                if abs(x) > L[0] / 2 * tolb or abs(y) > L[1] / 2 * tolb or abs(z) > L[2] / 2 * tolb:
                                    viol("boundary", "particle outside the box after a step", "hash %d at (%r,%r,%r), box %s" % (h, x, y, z, L), key="boundary:outside:%s" % boundary)
                                    break
                            if collision in ("none", "tree_norad") and len(after) != len(before):
                                viol("boundary", "particle count changed under periodic/shear boundaries", "%d -> %d" % (len(before), len(after)), key="boundary:count")
                            if exact and not viols:
                                for h, (x0, y0, z0, vx0, vy0, vz0) in before.items():
                                    if h not in after:
                                        viol("boundary", "particle vanished under periodic/shear boundaries", "hash %d" % h, key="boundary:vanished")
                                        break
                                    x1, y1, z1, vx1, vy1, vz1 = after[h]
                                    px = (x0 + dt / 2. * vx0) + dt / 2. * vx0
                                    kx = (px - x1) / L[0]
                                    if abs(kx - round(kx)) > 1e-9:
                                        viol("boundary", "x changed by something other than whole box lengths", "hash %d: drift %r -> %r (L=%r)" % (h, px, x1, L[0]), key="boundary:x-not-integer-multiple")
                                        break
                                    nwrap = int(round(kx))
                                    if nwrap:
                                        crossings += 1
                                        probe("root_box_crossing")
                                        if abs(nwrap) >= 2:
                                            probe("multi_box_crossing")
                                    if boundary == "shear":
                                        if nwrap:
                                            probe("shear_radial_wrap")
                                        exp_vy = vy0
                                        for _ in range(abs(nwrap)):
                                            exp_vy = exp_vy + (1.5 * OM * L[0] if nwrap > 0 else -1.5 * OM * L[0])
                                        if abs(vy1 - exp_vy) > 1e-12 * (abs(exp_vy) + abs(1.5 * OM * L[0])):
                                            viol("boundary", "shear velocity offset wrong", "hash %d: %d radial wraps, vy %r -> %r expected %r" % (h, nwrap, vy0, vy1, exp_vy), key="boundary:shear-vy")
                                            break
                                        if vx1 != vx0 or vz1 != vz0:
                                            viol("boundary", "velocity changed other than the shear offset", "hash %d" % h, key="boundary:velocity")
                                            break
                                    else:
                                        py = (y0 + dt / 2. * vy0) + dt / 2. * vy0
                                        pz = (z0 + dt / 2. * vz0) + dt / 2. * vz0
                                        ky, kz = (py - y1) / L[1], (pz - z1) / L[2]
                                        if abs(ky - round(ky)) > 1e-9 or abs(kz - round(kz)) > 1e-9:
                                            viol("boundary", "y/z changed by something other than whole box lengths", "hash %d" % h, key="boundary:yz-not-integer-multiple")
                                            break
                                        if round(ky) or round(kz):
                                            crossings += 1
                                            probe("root_box_crossing")
                                        if (vx1, vy1, vz1) != (vx0, vy0, vz0):
                                            viol("boundary", "velocity changed under periodic boundaries without forces", "hash %d" % h, key="boundary:velocity")
                                            break
                        if boundary == "open":
                            # independent of how the positions came about: after a step nothing outside the box (or flagged for removal) may remain
                            for h, (x, y, z, vx, vy, vz) in after.items():
                                if y != y and collision == "tree":
                                    continue        # a merge in the collision search flags its victim; that removal is deferred to the next tree update by design
                                # (a merger resolved after the boundary check of this step puts the survivor at the centre of mass of two particles; for two
                                #  particles on a face that quotient can round one ulp outside: left to the next step's boundary check, not a lost particle)
                                tol = 1 + (4e-15 if collision != "none" else 0.0)
                                if not (abs(x) <= L[0] / 2 * tol and abs(y) <= L[1] / 2 * tol and abs(z) <= L[2] / 2 * tol):
                                    viol("boundary", "a particle outside the box (or flagged for removal) is still present after the step", "hash %d at (%r,%r,%r), box %s, N=%d" % (h, x, y, z, L, len(after)), key="boundary:open-left-behind")
                                    break
                        if boundary == "open" and exact and not viols:
                            expect = {}
                            for h, (x0, y0, z0, vx0, vy0, vz0) in before.items():
                                px = (x0 + dt / 2. * vx0) + dt / 2. * vx0
                                py = (y0 + dt / 2. * vy0) + dt / 2. * vy0
                                pz = (z0 + dt / 2. * vz0) + dt / 2. * vz0
                                # leapfrog with a tree checks the boundary after the first half drift as well
                                hx, hy, hz = x0 + dt / 2. * vx0, y0 + dt / 2. * vy0, z0 + dt / 2. * vz0
                                inside_half = not (abs(hx) > L[0] / 2 or abs(hy) > L[1] / 2 or abs(hz) > L[2] / 2)
                                inside_end = not (abs(px) > L[0] / 2 or abs(py) > L[1] / 2 or abs(pz) > L[2] / 2)
                                if inside_end and (inside_half or not uses_tree):
                                    expect[h] = (px, py, pz)
                            if set(after) != set(expect):
                                viol("boundary", "open boundary did not remove exactly the particles outside the box", "kept but outside: %s; removed but inside: %s (N %d -> %d)" % (
                                    sorted(set(after) - set(expect))[:4], sorted(set(expect) - set(after))[:4], len(before), len(after)), key="boundary:open-set")
                            else:
                                if len(after) < len(before):
                                    probe("left_open_box", len(before) - len(after))
                                    crossings += 1
                                for h, (px, py, pz) in expect.items():
                                    if after[h][:3] != (px, py, pz):
                                        viol("boundary", "position of a surviving particle differs from its drift", "hash %d" % h, key="boundary:open-position")
                                        break
                        if collision == "tree" and len(after) < len(before):
                            probe("merge_with_tree", len(before) - len(after))
                        if [h for h in order1 if h in before] != [h for h in order0 if h in after]:
                            probe("reinsertion_reordered_particles")
                        # ---- tree invariants at the moment of use --------------------------------------------------------
                        if uses_tree:
                            msg = ctypes.create_string_buffer(400)
                            calls = ctypes.c_int()
                            bad = L2.verif_treecb_result(msg, 400, ctypes.byref(calls))
                            probe("tree_checked_in_force_callback", calls.value)
                            L2.verif_treecb_reset(1 if gravity == "tree" else 0)
                            if bad:
                                viol("tree", "tree invariant broken while the tree was in use (gravity walk)", msg.value.decode("ascii", "replace"), key=tree_key("tree:in-use:", msg.value.decode("ascii", "replace").split(":")[-1].strip()[:30]))
                        a = rb.heap_audit()
                        if a:
                            viol("heap", "heap corruption", a)
                        if viols:
                            break
                elif op["op"] == "add":
                    p = op["p"]
                    sim.add(m=p["m"], x=p["x"], y=p["y"], z=p["z"], vx=p["vx"], vy=p["vy"], vz=p["vz"], r=p["r"], hash=p["hash"])
                elif op["op"] == "remove":
                    if sim.N:
                        i = op["pick"] % sim.N
                        h = sim.particles[i].hash.value
                        sim.remove(index=i, keep_sorted=False)
                        probe("removed_with_tree") if uses_tree else None
                elif op["op"] == "remove_all":
                    del sim.particles
                    probe("remove_all_readd")
                elif op["op"] == "update_tree":
                    pass
                if op["op"] in ("update_tree", "remove", "add") and uses_tree and not viols:
                    sim.update_tree()
                    if gravity == "tree":
                        L2.reb_simulation_update_tree_gravity_data(ctypes.byref(sim))
                    n, m, leaves, cells, hsh = rb.tree_check(sim, gravity == "tree")
                    probe("tree_checked_after_update")
                    if n:
                        viol("tree", "tree invariant broken after update_tree", "after op %d (%s): %s" % (k, op["op"], m), key=tree_key("tree:after-update:", m.split("(")[0].strip()[:40]))
                    if leaves != sim.N:
                        viol("tree", "number of leaves differs from the number of particles", "%d leaves, N=%d" % (leaves, sim.N), key=tree_key("tree:leaf-count", ""))
        except RuntimeError as e:
            viol("op", "operation raised", "op %d %s: %s" % (k, op["op"], e), key="op:raised:" + str(e)[:30])
        if viols:
            break
    rb.setf_ptr(sim, "additional_forces", 0)
    if crossings:
        nontrivial = True
    sig = digest_of([box, boundary, gravity, collision, integ, kinds, min(crossings, 50)]) if nontrivial and not viols else None
    return dict(viols=viols, sig=sig, probes=probes, sim={"steps": int(sim.steps_done)})
