"""C17 — copies are independent and equal; compare reports exactly the real differences.

One run = a state reached by a seeded history, then a script over two handles (source A and
copy B): equality in three forms, independence under stepping / editing / freeing either side
with different simulated wall-clock histories and unrelated heap addresses (hostile allocator),
lock-step evolution, a one-bit mutation sweep over every persisted field of B's live struct
(compare must flag each, and un-flag it after it is restored), and equality with the own
restored snapshot.
"""
import ctypes
import os
import pickle
import struct

from .. import simgen, ops as OPS

ID = "C17"
TITLE = "Copies are independent and equal; compare reports exactly the real differences"
LEVEL = "exploration"
VARIANT = "io"
BUDGET = {"quick": 30, "thorough": 600}
RUN_CAP_S = 20.0
RULE = ("one run = state reached by a seeded history (any integrator mid-run, unsynchronised, variational configurations of order 1/2, MEGNO, merges, tree, display "
        "settings) followed by the copy/compare script. Non-trivial = the state has taken >=1 step and the mutation sweep flipped >=20 sticky sites; distinct = digest of "
        "(integrator, options, state features, mutated field ids).")
COMPONENTS = {"real": ["reb_simulation_copy, reb_simulation_diff, reb_binary_diff, serialiser/deserialiser", "Python ==, copy(), pickle", "all integrators for lock-step evolution"],
              "simulated": ["wall clock (source and copy see different jumps)", "heap placement (copy and source at unrelated addresses, freed arrays poisoned)"]}
ASSUMPTIONS = ["callbacks are re-attached to the copy before equality is asserted (the function-pointer flag is persisted)",
               "a mutation counts only if it is sticky (the serialiser recomputes some caches); array-sizing fields are only mutated downwards"]
PROBES = ["with_variational", "with_megno", "unsynchronized_state", "with_tree", "with_display_settings", "mutations_sticky", "mutations_not_sticky",
          "walltime_mutations_ignored", "pointer_mutations_ignored", "freed_copy_then_stepped_source", "tree_of_copy_checked", "live_arrays_compared", "copy_on_differently_filled_heap", "compact_system_merged_before_copy", "source_has_automatic_archive", "copy_outlived_its_origin", "one_sided_difference", "particles_with_additional_parameters"]

# dtype codes of reb_binary_field_descriptor
DT = dict(DOUBLE=0, INT=1, UINT=2, UINT32=3, INT64=4, UINT64=5, VEC3D=7, PARTICLE=8, POINTER=9, POINTER_ALIGNED=10, DP7=11, OTHER=12, END=13, PARTICLE4=15, POINTER_FIXED=16)
SIZING = {"N", "N_var", "N_var_config"}


def generate(rng, tier, index):
    c = rng.derive("cfg")
    compact = rng.derive("compact").chance(0.06)
    if compact:
        cfg = simgen.gen_compact_config(c)
    elif c.chance(0.15):
        cfg = simgen.gen_box_config(c, nmax=30, allow_shear=True)
    else:
        integ = simgen.INTEGRATORS_ALL[index % 11] if index < 33 else c.choice(simgen.INTEGRATORS_ALL)
        cfg = simgen.gen_planetary_config(c, integrators=[integ], nmin=2, nmax=6)
        if c.chance(0.35) and integ in ("ias15", "leapfrog", "bs") and "var" not in cfg and not cfg.get("megno"):
            cfg["var"] = [dict(order=1, tp=-1)]
            cfg["gravity"] = "basic"
            if c.chance(0.5) and integ != "bs":
                cfg["var"] += [dict(order=1, tp=-1), dict(order=2, first=0, second=1, tp=-1)]
            cfg.pop("N_active", None)
    cfg["alloc"] = c.choice([1, 2, 3])
    o = rng.derive("ops")
    warm = []
    for i in range(o.randint(0, 4)):
        k = o.weighted([("steps", 6), ("integrate", 2), ("display_settings", 1), ("sync", 1), ("move", 1), ("arm_archive", 1)])
        if k == "steps":
            warm.append(dict(op="steps", n=o.randint(1, 20)))
        elif k == "integrate":
            warm.append(dict(op="integrate", span=abs(cfg["dt"]) * o.choice([0.5, 3.3, 7.0]), exact=o.choice([None, 0, 1])))
        elif k == "move":
            warm.append(dict(op="move", pick=o.randint(0, 50), dx=1e-4, dvy=1e-4, fm=1.0))
        elif k == "arm_archive":
            # an automatic Simulationarchive is attached to the source: the schedule is persisted state, the file name is not
            warm.append(dict(op="arm_archive", kind=o.choice(["interval", "step", "walltime"]), value=o.choice([1, 2, 5])))
        else:
            warm.append(dict(op=k))
    s = rng.derive("script")
    if compact:
        # long enough for a merger before the copy and for rejected steps / encounters after it
        warm = [dict(op="steps", n=o.randint(100, 400))]
        return dict(config=cfg, ops=warm, nB=s.randint(1, 12), nA=s.randint(200, 700), jump_us=3600 * 10**6, clock_step=s.choice([0, 1000]), transport=s.choice(["pickle", "bytes", "file"]),
                    msel=s.u64() % 10**9, fill=rng.derive("fill").choice([0x00, 0x00, 0xFF, 0x5A]))
    return dict(config=cfg, ops=warm, nB=s.randint(1, 12), nA=s.randint(0, 5), jump_us=s.choice([3600 * 10**6, -3600 * 10**6, 10**12]),
                clock_step=s.choice([0, 1, 1000, 10**6]), transport=s.choice(["pickle", "bytes", "file"]), msel=s.u64() % 10**9,
                fill=rng.derive("fill").choice([0xCB, 0x00, 0x00, 0xFF, 0x5A]), with_ap=rng.derive("ap").chance(0.3))


def execute(case, ctx):
    import rebound
    from rebound.binary_field_descriptor import binary_field_descriptor_list
    from .. import rb
    from ..engine import digest_of
    from ..rng import Rng
    cfg = dict(case["config"])
    viols, probes = [], {}

    def probe(k, n=1):
        probes[k] = probes.get(k, 0) + n

    def viol(oracle, clause, detail, key=None):
        viols.append(dict(oracle=oracle, clause=clause, detail=detail, key=key or ("%s:%s" % (oracle, clause))))

    def result(sig=None):
        return dict(viols=viols, sig=sig, probes=probes, sim={"steps": int(A.steps_done) if A is not None else 0})

    rb.alloc_level(cfg.get("alloc", 2))
    rb.clock_set(step_us=case.get("clock_step", 0))
    L = rb.L2
    L.reb_simulation_diff.restype = ctypes.c_int
    A = None
    with rb.quiet():
        A = simgen.build(rebound, rb, cfg)
        for i, op in enumerate(case["ops"]):
            ctx.op(i)
            try:
                if op["op"] == "arm_archive":
                    ap = os.path.join(ctx.tmpdir, "c17-auto.bin")
                    kw = {op["kind"]: (op["value"] * abs(cfg["dt"]) if op["kind"] == "interval" else (op["value"] if op["kind"] == "step" else 1e9))}
                    A.save_to_file(ap, delete_file=True, **kw)
                    probe("source_has_automatic_archive")
                    continue
                OPS.apply(rebound, rb, A, cfg, op)
            except (rebound.Escape, rebound.NoParticles, rebound.Encounter, rebound.Collision, rebound.GenericError, RuntimeError, AttributeError, ValueError):
                return result()
    if A.N == 0:
        return result()
    uses_tree = cfg.get("gravity") == "tree" or cfg.get("collision") in ("tree", "linetree")
    if uses_tree:
        with rb.quiet():
            A.update_tree()     # flush deferred removals (merges flag their victim until the next tree update; a restore drops flagged particles)
    feats = []
    if cfg.get("compact") and A.N < len(cfg["particles"]):
        probe("compact_system_merged_before_copy"); feats.append("merged")
    if A.N_var:
        probe("with_variational"); feats.append("var")
    if cfg.get("megno"):
        probe("with_megno"); feats.append("megno")
    if uses_tree:
        probe("with_tree"); feats.append("tree")
    if rb.getf_ptr(A, "display_settings"):
        probe("with_display_settings"); feats.append("display")
    for nm in ("ri_whfast.is_synchronized", "ri_saba.is_synchronized", "ri_mercurius.is_synchronized", "ri_eos.is_synchronized"):
        if cfg["integrator"] == nm.split(".")[0][3:] and rb.getf(A, nm) == 0:
            probe("unsynchronized_state"); feats.append("unsync")

    def tree_holds_all(X):
        """every live particle of X is in a leaf of X's tree (None if X has no tree at all)"""
        if not rb.getf_ptr(X, "tree_root"):
            return None
        n, m, leaves, cells, hsh = rb.tree_check(X)
        live = sum(1 for i in range(X.N) if X.particles[i].y == X.particles[i].y)
        return n == 0 and leaves == live

    def same_aux(X, Y, what):
        """the tree is not persisted, but the modules of a tree configuration walk it: a copy / restored snapshot whose
        source has every particle in its tree must have that too, or it cannot evolve like the source"""
        if not uses_tree or not tree_holds_all(X):
            return True
        probe("tree_of_copy_checked")
        h = tree_holds_all(Y)
        if not h:
            viol("lockstep", "copy of a tree configuration has %s" % ("no tree" if h is None else "particles missing from its tree"), what, key="lockstep:tree-missing")
            return False
        return True

    def eq3(X, Y, what):
        """the three forms of equality must all say 'equal'"""
        with rb.quiet():
            e1 = (X == Y)
            d1 = L.reb_simulation_diff(ctypes.byref(X), ctypes.byref(Y), 2)
            d2 = L.reb_simulation_diff(ctypes.byref(Y), ctypes.byref(X), 2)
            sd = rb.S_diff(rb.S(X, drop=(126, 127)), rb.S(Y, drop=(126, 127)))
        if not e1 or d1 or d2:
            with rb.quiet():
                sdu = rb.S_diff(rb.S(X, mask=False, drop=(126, 127)), rb.S(Y, mask=False, drop=(126, 127)))
            viol("equal", "simulation compares unequal to %s" % what, "==:%s diff(X,Y):%d diff(Y,X):%d; fields differing with pointers masked: %s, unmasked: %s" % (e1, d1, d2, rb.describe_fields(sd), rb.describe_fields(sdu)),
                 key="equal:%s:%s" % (what.split()[0], ",".join(str(x) for x in (sdu or sd)[:2])))
            return False
        if sd:
            viol("equal", "compare reports equal although persisted content differs (%s)" % what, "fields %s" % rb.describe_fields(sd), key="equal:missed:" + ",".join(str(x) for x in sd[:2]))
            return False
        # the same through the simulations' own memory (the serialiser is shared by copy, compare and the S view: what it drops none of them sees)
        aX, aY = rb.A(X, drop=(126, 127)), rb.A(Y, drop=(126, 127))
        if uses_tree:
            aX.pop(rb.F_PARTICLES, None); aY.pop(rb.F_PARTICLES, None)
        ad = rb.S_diff(aX, aY)
        if ad:
            viol("equal", "compare reports equal although array content differs in memory (%s)" % what, "fields %s" % rb.describe_fields(ad), key="equal:missed-live:" + ",".join(str(x) for x in ad[:2]))
            return False
        probe("live_arrays_compared")
        return True

    # ---- 1. copy equals source ---------------------------------------------------------------
    ctx.op(100)
    ap_bufs = []
    if case.get("with_ap"):
        # per-particle additional parameters (the `ap` pointer, used by extension libraries): memory owned by the source
        for i in range(A.N - A.N_var):
            b_ = ctypes.create_string_buffer(32)
            ap_bufs.append(b_)
            A.particles[i].ap = ctypes.addressof(b_)
        probe("particles_with_additional_parameters")
    with rb.quiet():
        B = A.copy()
        simgen.attach_callbacks(rebound, rb, B, cfg)
    if ap_bufs:
        owned = set(ctypes.addressof(b_) for b_ in ap_bufs)
        shared = [i for i in range(B.N - B.N_var) if (B.particles[i].ap or 0) in owned]
        if shared:
            viol("independence", "the copy's particles point at additional-parameter memory owned by the source", "particles %s" % shared[:6], key="independence:shared-ap")
            return result()
    if not eq3(A, B, "its own copy") or not same_aux(A, B, "its own copy"):
        return result()
    # ---- 5. a simulation equals its own restored snapshot -------------------------------------
    ctx.op(101)
    with rb.quiet():
        tr = case["transport"]
        if tr == "pickle":
            C = pickle.loads(pickle.dumps(A))
        elif tr == "bytes":
            C = rebound.Simulation(rb.save_bytes(A))
        else:
            p = os.path.join(ctx.tmpdir, "c17.bin")
            if os.path.exists(p):
                os.unlink(p)
            A.save_to_file(p)
            C = rebound.Simulation(p)
        simgen.attach_callbacks(rebound, rb, C, cfg)
    if not eq3(A, C, "restored snapshot (%s)" % tr) or not same_aux(A, C, "restored snapshot (%s)" % tr):
        return result()
    # ---- 2. independence: evolving the copy never changes the source ---------------------------
    ctx.op(102)
    a0 = rb.save_bytes(A)
    a0b = rb.save_bytes(A)
    if a0 != a0b:
        viol("independence", "serialising twice gives different bytes", "")
        return result()
    try:
        with rb.quiet():
            rb.clock_jump(case["jump_us"])
            B.steps(case["nB"])
            if B.N:
                B.particles[0].x += 1e-3
    except (rebound.Escape, rebound.NoParticles, rebound.Encounter, rebound.Collision, rebound.GenericError, RuntimeError):
        return result()
    a1 = rb.save_bytes(A)
    if a1 != a0:
        d = rb.S_diff(rb.S_of_bytes(a0, mask=False), rb.S_of_bytes(a1, mask=False))
        viol("independence", "advancing / editing the copy changed the source", "fields %s" % rb.describe_fields(d), key="independence:source-changed")
        return result()
    with rb.quiet():
        ne = (A == B)
    if ne:
        viol("equal", "compare reports equal after the copy was advanced and edited", "nB=%d" % case["nB"], key="equal:missed:after-edit")
        return result()
    # ---- 3. lock-step: a second copy and the source evolve bitwise identically despite different wall clocks ----
    ctx.op(103)
    try:
        with rb.quiet():
            rb.alloc_fill(case.get("fill", 0xCB))      # the copy's fresh heap memory holds other garbage than the source's
            D = A.copy()
            simgen.attach_callbacks(rebound, rb, D, cfg)
            rb.clock_set(step_us=case.get("clock_step", 0) * 7 + 3)
            D.steps(case["nA"] + 1)
            rb.alloc_fill(0xCB)
            rb.clock_jump(-case["jump_us"])
            rb.clock_set(step_us=case.get("clock_step", 0))
            A.steps(case["nA"] + 1)
            if case.get("fill", 0xCB) != 0xCB:
                probe("copy_on_differently_filled_heap")
    except (rebound.Escape, rebound.NoParticles, rebound.Encounter, rebound.Collision, rebound.GenericError, RuntimeError):
        return result()
    if not (uses_tree and cfg.get("collision", "none") != "none"):
        ta, td = rb.T(A), rb.T(D)
        if uses_tree:
            srt = lambda raw: sorted(raw[i:i + rb.PART.size] for i in range(0, len(raw), rb.PART.size))
            same = ta[0] == td[0] and ta[1] == td[1] and srt(ta[2]) == srt(td[2])
        else:
            same = ta == td
        if not same:
            viol("lockstep", "copy and source do not evolve bitwise identically", "after %d steps" % (case["nA"] + 1), key="lockstep:T")
            return result()
        if not uses_tree and not eq3(A, D, "lock-stepped copy"):
            return result()
    # ---- free the first copy, source must be unaffected --------------------------------------------
    ctx.op(104)
    del B
    import gc
    gc.collect()
    a = rb.heap_audit()
    if a:
        viol("heap", "heap corruption after freeing the copy", a)
        return result()
    probe("freed_copy_then_stepped_source")
    # ---- a difference that exists on ONE side only (a block of state the other simulation does not have at all) is reported whichever way round ----
    ctx.op(107)
    try:
        with rb.quiet():
            X = A.copy()
            simgen.attach_callbacks(rebound, rb, X, cfg)
            one_sided = None
            if not rb.getf_ptr(A, "display_settings"):
                L.reb_simulation_add_display_settings(ctypes.byref(X))
                one_sided = "display_settings present in one simulation only"
            elif A.N_var_config == 0 and A.N - A.N_var >= 2 and OPS.var_ok(X, X.integrator, None, current=True):
                X.add_variation()
                one_sided = "variational configuration present in one simulation only"
            if one_sided:
                e_ax, e_xa = (A == X), (X == A)
                d_ax = L.reb_simulation_diff(ctypes.byref(A), ctypes.byref(X), 2)
                d_xa = L.reb_simulation_diff(ctypes.byref(X), ctypes.byref(A), 2)
        if one_sided:
            probe("one_sided_difference")
            if e_ax or e_xa or not d_ax or not d_xa:
                viol("compare", "a block of state present in one simulation only is not reported (in at least one order of the operands)",
                     "%s: A==X %s, X==A %s, diff(A,X) %d, diff(X,A) %d" % (one_sided, e_ax, e_xa, d_ax, d_xa), key="compare:missed:one-sided")
                return result()
        del X
    except (rebound.Escape, rebound.NoParticles, rebound.Encounter, rebound.Collision, rebound.GenericError, RuntimeError, AttributeError):
        pass
    # ---- a copy of a copy stays usable after the intermediate object (the thing it was copied from) has been freed and its memory poisoned ----
    ctx.op(106)
    if not (uses_tree and cfg.get("collision", "none") != "none"):
        try:
            with rb.quiet():
                E = A.copy()
                simgen.attach_callbacks(rebound, rb, E, cfg)
                G = E.copy()
                simgen.attach_callbacks(rebound, rb, G, cfg)
                F = A.copy()
                simgen.attach_callbacks(rebound, rb, F, cfg)
                del E
                gc.collect()
                G.steps(3)
                F.steps(3)
            tg, tf = rb.T(G), rb.T(F)
            if uses_tree:
                srt = lambda raw: sorted(raw[i:i + rb.PART.size] for i in range(0, len(raw), rb.PART.size))
                same = tg[0] == tf[0] and tg[1] == tf[1] and srt(tg[2]) == srt(tf[2])
            else:
                same = tg == tf
            if not same:
                viol("independence", "a copy whose origin has been freed does not evolve like a copy of the live source", "copy of a copy, intermediate freed, 3 steps", key="independence:origin-freed")
                return result()
            a = rb.heap_audit()
            if a:
                viol("heap", "heap corruption after freeing the origin of a copy", a)
                return result()
            probe("copy_outlived_its_origin")
            del G, F
        except (rebound.Escape, rebound.NoParticles, rebound.Encounter, rebound.Collision, rebound.GenericError, RuntimeError):
            pass
    # ---- 4. one-bit mutation sweep on D against A -------------------------------------------------
    ctx.op(105)
    if uses_tree:
        return result(digest_of([cfg["integrator"], feats, "no-sweep"]) if A.steps_done else None)
    with rb.quiet():
        if not (A == D):
            return result()
    descs = binary_field_descriptor_list()
    base = ctypes.addressof(D)
    mrng = Rng(case["msel"])
    sticky = 0
    mutated_ids = []

    def flip(addr, nbytes, down=False):
        """flip the lowest bit of the little-endian value at addr (or subtract 1 for sizing fields); returns restore closure"""
        old = ctypes.string_at(addr, nbytes)
        if down:
            v = int.from_bytes(old, "little")
            if v == 0:
                return None, None
            new = (v - 1).to_bytes(nbytes, "little")
        else:
            new = bytes([old[0] ^ 1]) + old[1:]
        ctypes.memmove(addr, new, nbytes)
        return old, new

    def test_site(desc, addr, nbytes, expect_differ, label, down=False):
        nonlocal sticky
        old, new = flip(addr, nbytes, down)
        if old is None:
            return True
        with rb.quiet():
            differ = not (A == D)
        still = ctypes.string_at(addr, nbytes) == new
        ctypes.memmove(addr, old, nbytes)
        if not still:
            probe("mutations_not_sticky")
            with rb.quiet():
                back = (A == D)
            if not back:
                # the library normalised the field differently after the flip; re-synchronise by copying A again
                return "resync"
            return True
        with rb.quiet():
            back = (A == D)
        if expect_differ:
            sticky += 1
            probe("mutations_sticky")
            if not differ:
                viol("compare", "a one-bit difference in a persisted field is not reported", "%s (%d bytes at +%d)" % (label, nbytes, addr - base), key="compare:missed:%s" % label.split("[")[0])
                return False
        else:
            if differ:
                viol("compare", "a difference in a non-state quantity (wall-clock / address) is reported", label, key="compare:spurious:%s" % label.split("[")[0])
                return False
        if not back:
            if down:
                return "resync"     # shrinking an array-sizing field lets the serialiser compact integrator arrays for good: start from a fresh copy
            viol("compare", "simulations still compare unequal after the mutation was undone", label, key="compare:not-restored:%s" % label.split("[")[0])
            return False
        return True

    SZ = {DT["DOUBLE"]: 8, DT["INT"]: 4, DT["UINT"]: 4, DT["UINT32"]: 4, DT["INT64"]: 8, DT["UINT64"]: 8}
    for d in descs:
        name = d.name.decode()
        if d.dtype in (DT["OTHER"], DT["END"]):
            continue
        ctx.op(1000 + d.type)
        res = True
        wall = name.startswith("walltime")
        if d.dtype in SZ:
            res = test_site(d, base + d.offset, SZ[d.dtype], not wall, name, down=name in SIZING)
            if wall:
                probe("walltime_mutations_ignored")
        elif d.dtype == DT["VEC3D"]:
            res = test_site(d, base + d.offset + 8 * mrng.below(3), 8, True, name)
        elif d.dtype in (DT["POINTER"], DT["POINTER_ALIGNED"], DT["POINTER_FIXED"], DT["DP7"], DT["PARTICLE4"]):
            if d.dtype == DT["PARTICLE4"]:
                ptr, nel, esz = base + d.offset, 4, rb.PART.size
            elif d.dtype == DT["POINTER_FIXED"]:
                ptr = struct.unpack("<Q", ctypes.string_at(base + d.offset, 8))[0]
                nel, esz = (1 if ptr else 0), d.element_size
            elif d.dtype == DT["DP7"]:
                n = struct.unpack("<I", ctypes.string_at(base + d.offset_N, 4))[0]
                k = mrng.below(7)
                ptr = struct.unpack("<Q", ctypes.string_at(base + d.offset + 8 * k, 8))[0]
                nel, esz = n, 8
            else:
                ptr = struct.unpack("<Q", ctypes.string_at(base + d.offset, 8))[0]
                nel = struct.unpack("<I", ctypes.string_at(base + d.offset_N, 4))[0]
                esz = d.element_size
            if not ptr or nel == 0:
                continue
            if name in ("particles", "ri_whfast.p_jh", "ri_whfast512.pjh0"):
                # every non-pointer member of (a sample of) the particles; pointer members must be ignored by compare
                idxs = list(range(nel)) if nel <= 4 else sorted(set([0, nel - 1, mrng.below(nel)]))
                for i in idxs:
                    for mname, (off, size, kind, decl) in rb.PART.m.items():
                        if kind in ("ptr", "fptr"):
                            if name == "particles":
                                r2 = test_site(d, ptr + i * esz + off, 8, False, "%s[%d].%s" % (name, i, mname))
                                probe("pointer_mutations_ignored")
                            else:
                                continue
                        else:
                            r2 = test_site(d, ptr + i * esz + off, size, True, "%s[%d].%s" % (name, i, mname))
                        if r2 is not True:
                            res = r2
                            break
                    if res is not True:
                        break
            elif name == "var_config":
                for i in range(nel):
                    for mname, (off, size, kind, decl) in rb.VC.m.items():
                        if kind in ("ptr", "fptr"):
                            r2 = test_site(d, ptr + i * esz + off, 8, False, "var_config[%d].%s" % (i, mname))
                            probe("pointer_mutations_ignored")
                        elif mname in ("order", "index", "testparticle", "lrescale") or (mname.startswith("index_1st") and struct.unpack("<i", ctypes.string_at(ptr + i * esz + rb.VC.m["order"][0], 4))[0] == 2):
                            r2 = test_site(d, ptr + i * esz + off, size, True, "var_config[%d].%s" % (i, mname))
                        else:
                            continue
                        if r2 is not True:
                            res = r2
                            break
                    if res is not True:
                        break
            else:
                i = mrng.below(nel)
                w = 8 if esz % 8 == 0 else 4
                off = (mrng.below(esz // w)) * w
                res = test_site(d, ptr + i * esz + off, w, True, "%s[%d]+%d" % (name, i, off))
        if res is False:
            return result()
        if res == "resync":
            with rb.quiet():
                D = A.copy()
                simgen.attach_callbacks(rebound, rb, D, cfg)
                base = ctypes.addressof(D)
        else:
            mutated_ids.append(d.type)
    a = rb.heap_audit()
    if a:
        viol("heap", "heap corruption during the copy/compare script", a)
    sig = digest_of([cfg["integrator"], sorted(cfg.get("opts", {}).items()), feats, mutated_ids]) if (A.steps_done and sticky >= 20) else None
    return result(sig)
