import importlib


def load(pid):
    return importlib.import_module("harness.props." + pid.lower())


CLAIMED = ["C05", "C06", "C07", "C08", "C09", "C13", "C14", "C15", "C17", "C19"]
