"""C09 — deferred synchronisation never changes the physics.

One run = an integrator with a deferred half step run with safe_mode=0 while *observer events*
(synchronize x1..3, diagnostics, copy, serialise, compare, manual/automatic archive snapshots) are
injected at seeded step boundaries.  The observed run is compared with the same seed's unobserved
run (bitwise where keep_unsynchronized=1 is offered, rounding level otherwise), with the safe-mode
run (rounding level), and every synchronize is checked for idempotence.
The "served /simulation request" observer lives in C19 part B (same non-interference oracle, under
the thread scheduler).
"""
import os
import struct

from .. import simgen

ID = "C09"
TITLE = "Deferred synchronisation never changes the physics"
LEVEL = "exploration"
VARIANT = "io"
BUDGET = {"quick": 30, "thorough": 600}
RUN_CAP_S = 20.0
RULE = ("one run = integrator in {WHFast (4 kernels x 6 correctors x corrector2 x 4 coordinate systems), SABA (18 types), MERCURIUS, EOS (9x9xn)} with safe_mode=0 "
        "(+- keep_unsynchronized) and a seeded sequence of observer events at step boundaries. Non-trivial = at least one observer event landed on an unsynchronised state; "
        "distinct = digest of (integrator, option vector, event-kind sequence).")
COMPONENTS = {"real": ["integrator_whfast.c / saba / eos / mercurius synchronize + step paths", "reb_simulation_synchronize dispatch, copy, serialiser, diff, archive writer", "energy / angular momentum / orbits diagnostics"],
              "simulated": ["observer arrival (which step boundary, which call sequence)", "wall clock", "heap placement"]}
ASSUMPTIONS = ["rounding-level equivalence: threshold 2e-8 x system scale for <= 300 steps in the regular regime = at least 37 steps per period at a=1 and no second corrector "
               "(calibrated worst cases on the unchanged tree over 6000 systems: WHFast 1.2e-12, SABA 3.5e-13, MERCURIUS 1.5e-11; a lost or doubled half kick / corrector is >= 1e-6). "
               "corrector2=1 is excluded from the rounding clauses: the library's inverse second corrector is not the exact inverse map (U(-a,-b) differs from U(a,b)^-1 in the order of the outer drifts), so safe and unsafe mode differ at truncation level there (measured up to 3e-3)",
               "EOS takes part in the idempotence clause only: its agreement with safe mode is a truncation-order statement about a pure function of dt (not decided here)",
               "observers that read particle data synchronise first, as the documentation requires"]
PROBES = ["observer_on_unsynchronized_state", "sync_twice", "sync_thrice", "copy_observer", "archive_observer", "bitwise_clause_checked", "safe_vs_unsafe_checked", "idempotence_checked", "timestep_modification_callback", "with_variational_particles"]

INTEGS = ["whfast", "whfast", "whfast", "saba", "saba", "mercurius", "eos"]
OBS = ["sync", "sync2", "sync3", "energy", "angmom", "orbits", "copy", "copy_nosync", "bytes", "bytes_nosync", "equal", "snapshot", "snapshot_nosync",
       "integrate_now", "integrate_now", "integrate_short", "integrate_span"]
# integrate_now   : integrate(sim.t) - a pure observer: the call returns at once and only synchronises
# integrate_short : integrate(t + f*dt, exact_finish_time=1), f < 1 - entered unsynchronised, the first step of the call is also its last
# integrate_span  : integrate(t + k*dt + f*dt, exact_finish_time=1)
# the last two change the time grid and are therefore replayed in the unobserved and in the safe-mode run as well


def generate(rng, tier, index):
    c = rng.derive("cfg")
    integ = INTEGS[index % len(INTEGS)] if index < 28 else c.choice(INTEGS)
    # first-order variational particles / MEGNO ride along with WHFast (they live in p_jh behind the real particles and are advanced by the same
    # half steps): they take part in the bit-for-bit clause; the rounding clauses are about the real particles
    cfg = simgen.gen_planetary_config(c, integrators=[integ], nmin=2, nmax=6, allow_var=(integ == "whfast" and c.chance(0.6)), allow_collisions=False, allow_tp=c.chance(0.3))
    for k in ("exit_max_distance", "force", "units"):
        cfg.pop(k, None)
    for p in cfg["particles"][1:]:
        p["m"] *= 0.03          # keep the systems regular: the rounding clauses compare trajectories, chaos would amplify rounding noise
    o = dict(cfg.get("opts", {}))
    o["ri_%s.safe_mode" % integ] = 0
    if integ in ("whfast", "saba"):
        o["ri_%s.keep_unsynchronized" % integ] = c.choice([0, 1, 1])
    cfg["opts"] = o
    cfg["alloc"] = c.choice([1, 2, 3])
    pt = rng.derive("ptm")
    if integ in ("whfast", "saba", "mercurius") and not o.get("ri_%s.keep_unsynchronized" % integ) and pt.chance(0.3):
        # a user callback that edits velocities between steps: the library synchronises before it and has to re-derive its cached
        # coordinates afterwards, in unsafe mode just as in safe mode
        cfg["ptm"] = pt.choice(["pre", "post"])
    e = rng.derive("events")
    events = []
    for i in range(e.randint(1, 8)):
        events.append(dict(after=e.randint(1, 40) if (i or e.chance(0.8)) else 0, kind=e.choice(OBS), f=e.choice([0.37, 0.5, 0.93]), k=e.randint(1, 5)))   # the first observer may arrive before any step
    return dict(config=cfg, events=events, tail=e.randint(0, 30))


def shrink(case, still_fails, viol=None):
    from ..engine import ddmin
    c = dict(case)

    def f(ev):
        c2 = dict(c)
        c2["events"] = ev
        return still_fails(c2)
    c["events"] = ddmin(c["events"], f)
    for opt in sorted(c["config"].get("opts", {})):
        if opt.endswith("safe_mode") or opt.endswith("keep_unsynchronized"):
            continue
        c2 = dict(c)
        c2["config"] = dict(c["config"])
        c2["config"]["opts"] = {k: v for k, v in c["config"]["opts"].items() if k != opt}
        if still_fails(c2):
            c = c2
    return c


def execute(case, ctx):
    import rebound
    from .. import rb
    from ..engine import digest_of
    cfg = dict(case["config"])
    integ = cfg["integrator"]
    viols, probes = [], {}

    def probe(k, n=1):
        probes[k] = probes.get(k, 0) + n

    def viol(oracle, clause, detail, key=None):
        viols.append(dict(oracle=oracle, clause=clause, detail=detail, key=key or ("%s:%s" % (oracle, clause))))

    rb.alloc_level(cfg.get("alloc", 2))
    rb.clock_set(step_us=0)
    keep = cfg["opts"].get("ri_%s.keep_unsynchronized" % integ, 0) == 1
    WT = (126, 127)
    apath = os.path.join(ctx.tmpdir, "c09.bin")
    if os.path.exists(apath):
        os.unlink(apath)
    syncflag = {"whfast": "ri_whfast.is_synchronized", "saba": "ri_saba.is_synchronized", "mercurius": "ri_mercurius.is_synchronized", "eos": "ri_eos.is_synchronized"}[integ]
    total = 0
    kinds = []
    nontrivial = False

    def positions(s):
        raw = rb.particles_raw(s)
        n = s.N
        out = []
        for i in range(n):
            out.append(struct.unpack_from("<6d", raw, i * rb.PART.size))
        return out

    def maxdiff(a, b):
        pa, pb = positions(a), positions(b)
        if len(pa) != len(pb):
            return float("inf"), 1.0
        scale = max([abs(x) for p in pa for x in p[:3]] + [1e-300])
        vscale = max([abs(x) for p in pa for x in p[3:]] + [1e-300])
        d = 0.0
        for p, q in zip(pa, pb):
            for k in range(3):
                d = max(d, abs(p[k] - q[k]) / scale)
            for k in range(3, 6):
                d = max(d, abs(p[k] - q[k]) / vscale)
        return d, scale

    dtu = abs(cfg["dt"])
    sg = 1.0 if cfg["dt"] > 0 else -1.0

    # shortened steps change dt: symplectic correctors (WHFast corrector / corrector2, SABA CM/CL types) and a kept unsynchronised
    # state (keep_unsynchronized=1) both presuppose a constant step, so these two event kinds are only generated for plain configurations
    plain = (not keep and not cfg["opts"].get("ri_whfast.corrector") and not cfg["opts"].get("ri_whfast.corrector2")
             and cfg["opts"].get("ri_whfast.kernel", 0) == 0 and cfg["opts"].get("ri_saba.type", 0) < 0x100)

    def stepping(s, ev):
        """the part of an event that changes the time grid (replayed identically in all runs)"""
        if not plain:
            return
        if ev["kind"] == "integrate_short":
            s.integrate(s.t + sg * ev.get("f", 0.5) * dtu, exact_finish_time=1)
        elif ev["kind"] == "integrate_span":
            s.integrate(s.t + sg * (ev.get("k", 2) + ev.get("f", 0.5)) * dtu, exact_finish_time=1)

    try:
        with rb.quiet():
            U = simgen.build(rebound, rb, cfg)
            for i, ev in enumerate(case["events"]):
                ctx.op(i)
                if ev["after"]:
                    U.steps(ev["after"])
                total += ev["after"]
                k = ev["kind"]
                if k == "integrate_now":
                    kinds.append(k)
                    if rb.getf(U, syncflag) == 0:
                        probe("observer_on_unsynchronized_state")
                        nontrivial = True
                    U.integrate(U.t, exact_finish_time=int(U.exact_finish_time))
                    continue
                if k in ("integrate_short", "integrate_span"):
                    kinds.append(k)
                    if rb.getf(U, syncflag) == 0:
                        probe("observer_on_unsynchronized_state")
                        nontrivial = True
                    stepping(U, ev)
                    continue
                kinds.append(k)
                uns = rb.getf(U, syncflag) == 0
                if uns:
                    probe("observer_on_unsynchronized_state")
                    nontrivial = True
                if k in ("sync", "sync2", "sync3", "energy", "angmom", "orbits", "copy", "bytes", "equal", "snapshot"):
                    U.synchronize()
                    a = rb.S(U, drop=WT)
                    reps = {"sync2": 1, "sync3": 2}.get(k, 1 if k == "sync" else 0)
                    for r in range(reps if k != "sync" else 1):
                        U.synchronize()
                        b = rb.S(U, drop=WT)
                        probe("idempotence_checked")
                        if k == "sync2":
                            probe("sync_twice")
                        if k == "sync3":
                            probe("sync_thrice")
                        d = rb.S_diff(a, b)
                        if d:
                            viol("idempotence", "synchronising twice is not the same as synchronising once", "event %d (%s) after %d steps: fields %s" % (i, k, total, rb.describe_fields(d)),
                                 key="idempotence:%s" % integ)
                            raise StopIteration
                if k == "energy":
                    U.energy()
                elif k == "angmom":
                    U.angular_momentum()
                elif k == "orbits":
                    if U.N - U.N_var >= 2:
                        try:
                            U.orbits()
                        except (ValueError, ZeroDivisionError):
                            pass
                elif k in ("copy", "copy_nosync"):
                    probe("copy_observer")
                    cpy = U.copy()
                    del cpy
                elif k in ("bytes", "bytes_nosync"):
                    rb.save_bytes(U)
                elif k == "equal":
                    cpy = U.copy()
                    _ = (U == cpy)
                    del cpy
                elif k in ("snapshot", "snapshot_nosync"):
                    probe("archive_observer")
                    U.save_to_file(apath)
            ctx.op(100)
            U.steps(case["tail"])
            total += case["tail"]
            # ---- unobserved run of the same seed ---------------------------------------------------------
            ctx.op(101)
            rb.alloc_fill(0x00 if total % 2 else 0x5A)      # the reference run finds other garbage in its fresh heap memory than the observed run
            Ref = simgen.build(rebound, rb, cfg)
            for ev in case["events"]:
                if ev["after"]:
                    Ref.steps(ev["after"])
                stepping(Ref, ev)
            Ref.steps(case["tail"])
            rb.alloc_fill(0xCB)
            if keep:
                # with keep_unsynchronized=1 the trajectory lives in p_jh; the particle array holds whatever the last synchronize
                # produced. Synchronise both (does not touch p_jh) and then everything must agree bit for bit.
                U.synchronize()
                Ref.synchronize()
                probe("bitwise_clause_checked")
                # integrate() zeroes dt_last_done on entry (not read by WHFast / SABA): not part of the trajectory
                dr = WT + ((145,) if "integrate_now" in kinds else ())
                d = rb.S_diff(rb.S(U, drop=dr), rb.S(Ref, drop=dr))
                if d:
                    viol("bitwise", "observer calls changed the trajectory although keep_unsynchronized=1", "after %d steps with events %s: fields %s" % (total, kinds, rb.describe_fields(d)),
                         key="bitwise:%s" % integ)
                    raise StopIteration
            U.synchronize()
            Ref.synchronize()
            import math
            regular = (2 * math.pi / math.sqrt(cfg["G"])) / abs(cfg["dt"]) >= 36.9 and not cfg["opts"].get("ri_whfast.corrector2") and not (cfg.get("var") or cfg.get("megno"))
            if cfg.get("var") or cfg.get("megno"):
                probe("with_variational_particles")
            tol = 2e-8
            if integ != "eos" and regular:
                d, scale = maxdiff(U, Ref)
                # every intermediate synchronize closes and re-opens the half step (up to 8 times here): rounding differences are
                # amplified by the dynamics; calibrated worst case 1.7e-8 in 70k runs, threshold 2e-7 (a lost half kick is >= 1e-6)
                if not (d <= 2e-7):
                    viol("rounding", "observed run differs from the unobserved run beyond rounding", "max relative difference %.3g after %d steps, events %s" % (d, total, kinds), key="rounding:observed:%s" % integ)
                    raise StopIteration
            # ---- safe mode run ----------------------------------------------------------------------------
            if integ != "eos" and total <= 300 and regular:
                ctx.op(102)
                cfgS = dict(cfg)
                cfgS["opts"] = dict(cfg["opts"])
                cfgS["opts"]["ri_%s.safe_mode" % integ] = 1
                cfgS["opts"].pop("ri_%s.keep_unsynchronized" % integ, None)
                Sf = simgen.build(rebound, rb, cfgS)
                for ev in case["events"]:
                    if ev["after"]:
                        Sf.steps(ev["after"])
                    stepping(Sf, ev)
                Sf.steps(case["tail"])
                Sf.synchronize()
                probe("safe_vs_unsafe_checked")
                if cfg.get("ptm"):
                    probe("timestep_modification_callback")
                d, scale = maxdiff(Ref, Sf)
                if not (d <= tol):
                    viol("rounding", "safe_mode=0 + synchronize differs from safe mode beyond rounding", "max relative difference %.3g after %d steps (%s, opts %s)" % (d, total, integ, cfg["opts"]), key="rounding:safe:%s" % integ)
                if U.t != Sf.t and abs(U.t - Sf.t) > 1e-9 * abs(Sf.t):
                    viol("rounding", "time differs between safe and unsafe run", "%r vs %r" % (U.t, Sf.t))
    except StopIteration:
        pass
    except (rebound.Escape, rebound.NoParticles, rebound.Encounter, rebound.Collision, rebound.GenericError, RuntimeError):
        return dict(viols=viols, sig=None, probes=probes, sim={"steps": total})
    a = rb.heap_audit()
    if a:
        viol("heap", "heap corruption", a)
    sig = digest_of([integ, sorted(cfg["opts"].items()), kinds]) if nontrivial and not viols else None
    return dict(viols=viols, sig=sig, probes=probes, sim={"steps": total})
