"""C14 — particle bookkeeping stays consistent under any add/remove/hash history.

Seeded op histories against a list model, through the C entry points (exact return codes) and
the Python particles container, under the hostile allocator (always-move realloc, poison,
canaries) with a heap audit after every op.
"""
import ctypes
import struct

from .. import simgen

ID = "C14"
TITLE = "Particle bookkeeping stays consistent under any add/remove/hash history"
LEVEL = "exploration"
VARIANT = "io"
BUDGET = {"quick": 30, "thorough": 600}
RUN_CAP_S = 60.0
RULE = ("one run = one seeded history (<=60 ops) of add / add-many (crossing the 128- and 256-slot growth points) / remove(index, keep_sorted) with valid and "
        "invalid indices / remove(hash) present, absent, duplicate, zero / set-hash / lookup / remove-all / set N_active / Python container forms / steps, "
        "in one of the configurations plain, tree, MERCURIUS, TRACE, variational, N_active. Non-trivial = at least one removal and one lookup after a removal; "
        "distinct = digest of the (configuration, op-kind+outcome sequence).")
COMPONENTS = {"real": ["particle.c (add, remove paths, lookup table)", "tools.c reb_hash", "tree.c (deferred removal)", "MERCURIUS/TRACE bookkeeping in add/remove",
                       "rebound Python particles container, Simulation.add/remove"],
              "simulated": ["heap placement policy (hostile allocator with audit after every op)", "wall clock"]}
ASSUMPTIONS = ["documented semantics only: sorted removal shifts, unsorted removal moves the last particle into the hole, hybrid integrators force sorted removal, "
               "with a tree unsorted removal is deferred until the next tree update (order then unspecified), N_active decrements when a sorted removal hits an index below it"]
PROBES = ["array_filled_to_capacity", "refused_add_outside_box", "realloc_moved_particles", "stale_lookup_after_remove", "duplicate_hash_lookup", "zero_hash_lookup", "invalid_index_refused", "unknown_hash_refused",
          "removal_refused_variational", "tree_deferred_removal", "hybrid_removal_after_steps", "remove_all_then_add", "last_particle_removed"]

MODES = ["plain", "plain", "tree", "mercurius", "trace", "var", "nactive", "megno"]


def generate(rng, tier, index):
    mode = MODES[index % len(MODES)] if index < 3 * len(MODES) else rng.choice(MODES)
    o = rng.derive("ops")
    n0 = o.choice([0, 1, 2, 3, 5, 9])
    if mode in ("mercurius", "trace", "var", "megno"):
        n0 = max(n0, 3)
    nops = o.randint(5, 40 if tier == "quick" else 60)
    ops = []
    for i in range(nops):
        k = o.weighted([("add", 22), ("add_many", 1.2), ("remove", 22), ("remove_hash", 12), ("set_hash", 8), ("lookup", 16), ("remove_all", 2.5),
                        ("set_nactive", 3), ("py_forms", 6), ("steps", 5 if mode in ("mercurius", "trace", "tree", "plain") else 1), ("update_tree", 4 if mode == "tree" else 0), ("add_outside", 3 if mode == "tree" else 0),
                        ("py_remove", 6)])
        if k == "add":
            ops.append(dict(op="add", hash=o.weighted([("unique", 6), ("dup", 2), ("zero", 2), ("string", 2)]), pick=o.randint(0, 500)))
        elif k == "add_many":
            ops.append(dict(op="add_many", n=o.choice([130, 140, 260])))
            if o.chance(0.5):
                ops[-1]["to"] = o.choice([128, 128, 256])
                ops.append(dict(op="remove", index="valid", pick=o.randint(0, 500), keep_sorted=1))
        elif k == "remove":
            ops.append(dict(op="remove", index=o.weighted([("valid", 7), ("-1", 1), ("N", 1), ("N+5", 1), ("huge", 1)]), pick=o.randint(0, 500), keep_sorted=o.choice([0, 1])))
        elif k in ("remove_hash", "py_remove"):
            ops.append(dict(op=k, which=o.weighted([("present", 6), ("absent", 2), ("zero", 1), ("removed", 2)]), pick=o.randint(0, 500), keep_sorted=o.choice([0, 1]),
                            by=o.choice(["index", "hash"])))
        elif k == "set_hash":
            ops.append(dict(op="set_hash", pick=o.randint(0, 500), to=o.weighted([("fresh", 4), ("dup", 2), ("zero", 1), ("removed", 2)]), pick2=o.randint(0, 500)))
        elif k == "lookup":
            ops.append(dict(op="lookup", which=o.weighted([("present", 5), ("absent", 2), ("zero", 1), ("removed", 3)]), pick=o.randint(0, 500)))
        elif k == "set_nactive":
            ops.append(dict(op="set_nactive", pick=o.randint(-1, 12)))
        elif k == "steps":
            ops.append(dict(op="steps", n=o.randint(1, 3)))
        else:
            ops.append(dict(op=k))
    hy = rng.derive("hybrid")
    extra = {}
    if mode in ("mercurius", "trace"):
        # the hybrid integrators keep encounter bookkeeping (maps, counters, per-pair flags) that particle removal has to maintain: make sure steps with
        # encounters / pericentre switching precede runs of removals
        extra["hy_dt"], extra["peri_eta"], extra["peri_mode"] = hy.choice([(0.05, None, 0), (0.3, 0.2, 2), (1.0, 0.5, 2), (1.0, 0.2, 2), (0.3, 0.2, 1), (0.05, 2.0, 0)])
        if mode == "trace" and extra["peri_mode"]:
            # a pericentre switch integrates the *whole* system with IAS15 / BS: with hundreds of bodies one step costs minutes (slow, not a finding)
            ops = [dict(op="add", hash="unique", pick=x.get("n", 0)) if x["op"] == "add_many" else x for x in ops]
        if hy.chance(0.5):
            at = hy.randint(0, len(ops))
            burst = [dict(op="steps", n=hy.randint(1, 3))] + [dict(op="remove", index="valid", pick=hy.randint(0, 500), keep_sorted=hy.choice([0, 1])) for _ in range(hy.randint(2, 5))]
            ops[at:at] = burst
    return dict(mode=mode, n0=n0, ops=ops, alloc=rng.derive("a").choice([2, 3, 3, 1]), seed=rng.derive("s").u64() % 10**9, **extra)


STR_NAMES = ["earth", "mars", "venus", "jupiter", "pluto", "ceres", "io", "europa"]


def execute(case, ctx):
    import rebound
    from .. import rb
    from ..rng import Rng
    L = rb.L2
    mode = case["mode"]
    viols, probes = [], {}
    rr = Rng(case["seed"])

    def probe(k, n=1):
        probes[k] = probes.get(k, 0) + n

    def viol(oracle, clause, detail, key=None):
        viols.append(dict(oracle=oracle, clause=clause, detail=detail, key=key or ("%s:%s" % (oracle, clause))))

    rb.alloc_level(case.get("alloc", 2))
    rb.clock_set()
    L.reb_simulation_remove_particle.restype = ctypes.c_int
    L.reb_simulation_remove_particle_by_hash.restype = ctypes.c_int
    L.reb_simulation_particle_by_hash.restype = ctypes.c_void_p
    L.reb_hash.restype = ctypes.c_uint32
    sim = rebound.Simulation()
    sim.G = 1.0
    tree = mode == "tree"
    if tree:
        sim.configure_box(100.0)
        sim.gravity = "tree"
        sim.integrator = "leapfrog"
        sim.dt = 1e-3
    elif mode in ("mercurius", "trace"):
        sim.integrator = mode
        sim.dt = case.get("hy_dt", 0.05) if mode == "trace" else 0.05
        if mode == "trace":
            if case.get("peri_eta"):
                sim.ri_trace.peri_crit_eta = case["peri_eta"]
            sim.ri_trace.peri_mode = case.get("peri_mode", 0)
    else:
        sim.integrator = "leapfrog"
        sim.dt = 1e-3
    rb.setf_ptr(sim, "free_particle_ap", ctypes.cast(L.verif_free_ap, ctypes.c_void_p).value)
    model = []            # list of dict(hash, uid)
    nact = [-1]
    pending_tree = []     # uids flagged for deferred removal
    removed_hashes = []
    uid = [0]
    last_a = [1.0]
    next_hash = [5000]
    kinds = []

    def ptr_particles():
        return ctypes.cast(sim._particles, ctypes.c_void_p).value or 0

    def c_add(h, m=None):
        uid[0] += 1
        u = float(uid[0])
        i = len(model)
        if mode in ("mercurius", "trace"):
            if i == 0:
                kw = dict(m=1.0, x=0.0, y=0.0, z=0.0, vx=0.0, vy=0.0, vz=0.0)
            else:
                a = 1.0 + 0.37 * uid[0]
                kw = dict(m=1e-7, x=a, y=0.0, z=0.0, vx=0.0, vy=a ** -0.5, vz=0.0)
                if case.get("peri_mode") is not None and i < 12:     # (hundreds of mutually close bodies make one hybrid step cost minutes)
                    # (cases generated since the hybrid bursts exist) some neighbours within each other's Hill sphere and some eccentric orbits, so that
                    # steps leave the integrators in their encounter / pericentre modes
                    w = rr.below(4)
                    if w == 0 and i >= 2:
                        a = last_a[0] * 1.004
                        kw = dict(m=1e-4, x=a, y=0.0, z=0.0, vx=0.0, vy=a ** -0.5, vz=0.0)
                    elif w == 1:
                        kw["vy"] *= 0.55
                last_a[0] = a
        else:
            kw = dict(m=1e-9, x=rr.uniform(-40, 40), y=rr.uniform(-40, 40), z=rr.uniform(-40, 40), vx=0.0, vy=0.0, vz=0.0)
        if isinstance(h, str):
            sim.add(r=u, hash=h, **kw)
            hv = L.reb_hash(h.encode())
            # the Python and C hash functions must agree
            if rebound.hash(h).value != hv:
                viol("hash", "python and C string hash disagree", h)
        else:
            sim.add(r=u, hash=h, **kw) if h else sim.add(r=u, **kw)
            hv = h
        model.append(dict(hash=hv, uid=u))

    def live_list():
        n = sim.N
        raw = rb.particles_raw(sim)
        o_r = rb.PART.m["r"][0]
        o_h = rb.PART.m["hash"][0]
        o_y = rb.PART.m["y"][0]
        out = []
        for i in range(n):
            b = raw[i * rb.PART.size:(i + 1) * rb.PART.size]
            out.append((struct.unpack_from("<I", b, o_h)[0], struct.unpack_from("<d", b, o_r)[0], struct.unpack_from("<d", b, o_y)[0]))
        return out

    def compare(where):
        live = live_list()
        nvar = sim.N_var
        real = live[:len(live) - nvar] if nvar else live
        if tree and pending_tree:
            # flagged (y = NaN) particles are still in the array until the next tree update
            got = sorted((h, u) for h, u, y in real if y == y)
            exp = sorted((m["hash"], m["uid"]) for m in model)
            flagged = sorted(u for h, u, y in real if y != y)
            if got != exp or flagged != sorted(pending_tree):
                viol("model", "particle set differs from the reference list (tree, deferred removal pending)", "%s: live %s flagged %s, model %s pending %s" % (where, got[:8], flagged, exp[:8], pending_tree))
                return False
            return True
        got = [(h, u) for h, u, y in real]
        exp = [(m["hash"], m["uid"]) for m in model]
        if tree:
            got, exp = sorted(got), sorted(exp)
        if got != exp:
            viol("model", "particle list differs from the reference list", "%s: N=%d live %s ... model(%d) %s ..." % (where, sim.N, got[:10], len(exp), exp[:10]), key="model:list")
            return False
        if sim.N_active != nact[0]:
            viol("model", "N_active differs from the documented value", "%s: live %d model %d" % (where, sim.N_active, nact[0]), key="model:N_active")
            return False
        return True

    def lookup(h):
        p = L.reb_simulation_particle_by_hash(ctypes.byref(sim), ctypes.c_uint32(h))
        if not p:
            return None
        base = ptr_particles()
        off = p - base
        if base == 0 or off < 0 or off % rb.PART.size or off // rb.PART.size >= sim.N:
            viol("lookup", "lookup returned a pointer outside the particle storage", "hash %d -> %#x (base %#x, N=%d)" % (h, p, base, sim.N))
            return -1
        i = off // rb.PART.size
        ph = struct.unpack("<I", ctypes.string_at(p + rb.PART.m["hash"][0], 4))[0]
        if ph != h:
            viol("lookup", "lookup returned a particle that does not carry the hash", "asked %d got particle %d with hash %d" % (h, i, ph))
            return -1
        return i

    def pick_hash(which, pick):
        if which == "present" and model:
            return model[pick % len(model)]["hash"]
        if which == "zero":
            return 0
        if which == "removed" and removed_hashes:
            return removed_hashes[pick % len(removed_hashes)]
        return 900000 + pick

    def model_has(h):
        """live indices of the particles carrying hash h according to the model (variational particles carry hash 0)"""
        live = live_list()
        uid2live = {u: i for i, (hh, u, y) in enumerate(live)}
        out = [uid2live[m["uid"]] for m in model if m["hash"] == h and m["uid"] in uid2live]
        if h == 0:
            out += list(range(sim.N - sim.N_var, sim.N))
        return out

    def model_index_of_live(i):
        u = live_list()[i][1]
        for j, m in enumerate(model):
            if m["uid"] == u:
                return j
        return None

    def hybrid():
        return mode in ("mercurius", "trace")

    def do_remove_model(i, keep_sorted, last=False):
        m = model[i]
        removed_hashes.append(m["hash"])
        if hybrid():
            keep_sorted = 1
        if keep_sorted or last:
            model.pop(i)
            if i < nact[0]:
                nact[0] -= 1
        elif tree:
            pending_tree.append(m["uid"])
            model.pop(i)
            probe("tree_deferred_removal")
        else:
            model[i] = model[-1]
            model.pop()
            if nact[0] > len(model):
                nact[0] = len(model)      # there cannot be more active particles than particles

    with rb.quiet():
        for i in range(case["n0"]):
            next_hash[0] += 1
            c_add(next_hash[0])
        if mode == "var":
            v = sim.add_variation()
        if mode == "megno":
            sim.init_megno(seed=4)
        if mode == "nactive" and model:
            nact[0] = max(1, len(model) // 2)
            sim.N_active = nact[0]
    had_removal = False
    lookup_after_removal = False
    stepped = False
    for k, op in enumerate(case["ops"]):
        ctx.op(k)
        kind = op["op"]
        outcome = ""
        base_before = ptr_particles()
        try:
            with rb.quiet() as q:
                if kind == "add":
                    if sim.N_var:
                        continue
                    hk = op["hash"]
                    if hk == "unique":
                        next_hash[0] += 1
                        h = next_hash[0]
                    elif hk == "dup" and model:
                        h = model[op["pick"] % len(model)]["hash"]
                    elif hk == "string":
                        h = STR_NAMES[op["pick"] % len(STR_NAMES)]
                    else:
                        h = 0
                    if not model and removed_hashes:
                        probe("remove_all_then_add")
                    c_add(h)
                elif kind == "add_many":
                    if sim.N_var or len(model) > 400:
                        continue
                    nadd = op["n"]
                    if op.get("to"):
                        # fill the particle array exactly to its capacity (blocks of 128): the next order-preserving removal then shifts a FULL array
                        nadd = op["to"] - len(model) if len(model) < op["to"] else 0
                        probe("array_filled_to_capacity") if nadd else None
                    for j in range(nadd):
                        next_hash[0] += 1
                        c_add(next_hash[0])
                elif kind == "remove":
                    n = sim.N
                    idx = {"valid": (op["pick"] % n) if n else 0, "-1": -1, "N": n, "N+5": n + 5, "huge": 2**31 - 1}[op["index"]]
                    nreal = sim.N - sim.N_var
                    valid = 0 <= idx < nreal and not sim.N_var
                    ks = op["keep_sorted"]
                    midx = model_index_of_live(idx) if 0 <= idx < sim.N else None
                    if valid and midx is None:
                        continue        # tree: index of a particle already flagged for deferred removal - unspecified, not issued
                    before = rb.S(sim)
                    last = sim.N == 1
                    ret = L.reb_simulation_remove_particle(ctypes.byref(sim), ctypes.c_int(idx), ctypes.c_int(ks))
                    fh = ctypes.c_uint32()
                    nfree = L.verif_free_ap_take(ctypes.byref(fh))
                    eff_sorted = ks or hybrid()
                    if valid and tree and eff_sorted:
                        valid = False       # documented: cannot remove from a tree and keep the particles sorted
                    if valid:
                        if ret != 1:
                            viol("remove", "valid removal refused", "index %d of %d keep_sorted=%d returned %d (%s)" % (idx, nreal, ks, ret, q.messages[-1:]))
                            break
                        if nfree != 1:
                            viol("remove", "free_particle_ap not called exactly once for a removed particle", "called %d times" % nfree)
                            break
                        if nreal == 1:
                            probe("last_particle_removed")
                        do_remove_model(midx, ks, last)
                        had_removal = True
                        if hybrid() and stepped:
                            probe("hybrid_removal_after_steps")
                        outcome = "ok"
                    else:
                        if idx < 0 or idx >= nreal:
                            probe("invalid_index_refused")
                        if sim.N_var or (0 <= idx < nreal and mode in ("var", "megno")):
                            probe("removal_refused_variational")
                        outcome = "refused"
                        if ret != 0:
                            viol("remove", "invalid removal request reported success", "index %d with N=%d (N_var=%d, tree=%s, keep_sorted=%d) returned %d" % (idx, n, sim.N_var, tree, ks, ret),
                                 key="remove:invalid-request-succeeded")
                            break
                        d = rb.S_diff(before, rb.S(sim))
                        if d:
                            viol("remove", "failed removal changed the simulation", "index %d with N=%d keep_sorted=%d tree=%s: fields %s" % (idx, n, ks, tree, rb.describe_fields(d)),
                                 key="remove:failed-request-changed-state")
                            break
                        if nfree:
                            viol("remove", "free_particle_ap called for a refused removal", "%d calls" % nfree)
                            break
                elif kind in ("remove_hash", "py_remove"):
                    h = pick_hash(op["which"], op["pick"])
                    cands = model_has(h)
                    ks = op["keep_sorted"]
                    if tree and pending_tree and not cands:
                        continue        # a flagged particle may still carry this hash until the tree is updated: unspecified
                    before = rb.S(sim)
                    idx = lookup(h) if cands else None
                    if idx == -1:
                        break
                    midx = model_index_of_live(idx) if idx is not None else None
                    if idx is not None and midx is None and tree and pending_tree:
                        continue            # lookup hit a particle already flagged for deferred removal: unspecified, not issued
                    if idx is not None and midx is None:
                        cands = []          # only variational particles carry this hash: removal must be refused
                    valid = bool(cands) and not sim.N_var and not (tree and (ks or hybrid()))
                    if cands and idx is None and not (tree and pending_tree):
                        viol("lookup", "lookup does not find an existing hash", "hash %d present at model indices %s" % (h, cands))
                        break
                    last = sim.N == 1
                    if kind == "py_remove":
                        raised = None
                        try:
                            if op["by"] == "index" and cands:
                                sim.remove(index=idx, keep_sorted=bool(ks))
                            else:
                                sim.remove(hash=ctypes.c_uint32(h), keep_sorted=bool(ks))
                        except RuntimeError as e:
                            raised = e
                        ret = 0 if raised else 1
                    else:
                        ret = L.reb_simulation_remove_particle_by_hash(ctypes.byref(sim), ctypes.c_uint32(h), ctypes.c_int(ks))
                    fh = ctypes.c_uint32()
                    nfree = L.verif_free_ap_take(ctypes.byref(fh))
                    if valid:
                        if ret != 1:
                            viol("remove", "valid removal by hash refused", "hash %d (index %s) returned %d" % (h, idx, ret))
                            break
                        if idx not in cands:
                            viol("lookup", "lookup index not among the particles carrying the hash", "hash %d idx %s cands %s" % (h, idx, cands))
                            break
                        if len(cands) > 1:
                            probe("duplicate_hash_lookup")
                        do_remove_model(midx, ks, last)
                        had_removal = True
                        outcome = "ok"
                    else:
                        outcome = "refused"
                        if not cands:
                            probe("unknown_hash_refused")
                        if ret != 0:
                            viol("remove", "invalid removal request reported success", "hash %d (present=%s N_var=%d tree=%s ks=%d) returned %d" % (h, bool(cands), sim.N_var, tree, ks, ret),
                                 key="remove:invalid-request-succeeded")
                            break
                        d = rb.S_diff(before, rb.S(sim))
                        if d:
                            viol("remove", "failed removal changed the simulation", "hash %d: fields %s" % (h, rb.describe_fields(d)), key="remove:failed-request-changed-state")
                            break
                elif kind == "set_hash":
                    if not model:
                        continue
                    i = op["pick"] % len(model)
                    to = op["to"]
                    if to == "fresh":
                        next_hash[0] += 1
                        h = next_hash[0]
                    elif to == "dup":
                        h = model[op["pick2"] % len(model)]["hash"]
                    elif to == "removed" and removed_hashes:
                        h = removed_hashes[op["pick2"] % len(removed_hashes)]
                    else:
                        h = 0
                    if tree and pending_tree:
                        continue
                    mi = model_index_of_live(i)
                    if mi is None:
                        continue
                    sim.particles[i].hash = ctypes.c_uint32(h)
                    model[mi]["hash"] = h
                elif kind == "lookup":
                    h = pick_hash(op["which"], op["pick"])
                    cands = model_has(h)
                    if tree and pending_tree:
                        continue
                    idx = lookup(h)
                    if idx == -1:
                        break
                    if had_removal:
                        lookup_after_removal = True
                        probe("stale_lookup_after_remove")
                    if h == 0 and cands:
                        probe("zero_hash_lookup")
                    if tree and pending_tree:
                        pass        # flagged particles are still present until the tree is updated: unspecified
                    elif cands and idx is None:
                        viol("lookup", "lookup does not find an existing hash", "hash %d present at model indices %s (N=%d)" % (h, cands, sim.N), key="lookup:missing")
                        break
                    elif not cands and idx is not None:
                        viol("lookup", "lookup finds a hash no particle carries", "hash %d -> index %d" % (h, idx), key="lookup:phantom")
                        break
                    elif cands and idx not in cands:
                        viol("lookup", "lookup index not among the particles carrying the hash", "hash %d idx %s cands %s" % (h, idx, cands))
                        break
                    outcome = "hit" if idx is not None else "miss"
                elif kind == "remove_all":
                    if op.get("py"):
                        del sim.particles
                    else:
                        L.reb_simulation_remove_all_particles(ctypes.byref(sim))
                    for m in model:
                        removed_hashes.append(m["hash"])
                    del model[:]
                    del pending_tree[:]
                    nact[0] = -1
                    had_removal = True
                    L.verif_free_ap_take(ctypes.byref(ctypes.c_uint32()))
                elif kind == "add_outside":
                    # an invalid request: with a tree in use a particle outside the box cannot be added; the call must fail and change nothing
                    if tree and not sim.N_var:
                        n_before = sim.N
                        next_hash[0] += 1
                        raised = False
                        try:
                            sim.add(m=1e-9, x=rr.choice([1e3, -1e3]), y=rr.uniform(-40, 40), z=0.0, r=987654.0, hash=next_hash[0])
                        except RuntimeError:
                            raised = True
                        probe("refused_add_outside_box")
                        if not raised:
                            viol("add", "adding a particle outside the box of a tree simulation did not fail", "N %d -> %d" % (n_before, sim.N), key="add:invalid-request-succeeded")
                            break
                        if sim.N != n_before or L.reb_simulation_particle_by_hash(ctypes.byref(sim), ctypes.c_uint32(next_hash[0])):
                            viol("add", "failed add changed the simulation", "N %d -> %d, lookup of the refused hash %s" % (n_before, sim.N, "finds a particle" if L.reb_simulation_particle_by_hash(ctypes.byref(sim), ctypes.c_uint32(next_hash[0])) else "fails"), key="add:failed-request-changed-state")
                            break
                elif kind == "set_nactive":
                    if sim.N_var:
                        continue
                    v = op["pick"]
                    if v > len(model):
                        v = len(model)
                    sim.N_active = v
                    nact[0] = v
                elif kind == "update_tree":
                    if tree:
                        sim.update_tree()
                        del pending_tree[:]
                elif kind == "steps":
                    if len(model) < 2 or (tree and pending_tree and False):
                        continue
                    sim.steps(op["n"])
                    stepped = True
                    if tree:
                        del pending_tree[:]
                elif kind == "py_forms":
                    n = len(model)
                    if sim.N_var == 0 and not pending_tree:
                        ps = sim.particles
                        if len(ps) != n:
                            viol("python", "len(sim.particles) wrong", "%d vs %d" % (len(ps), n))
                            break
                        if [p.r for p in ps] != [m["uid"] for m in model] and not tree:
                            viol("python", "iteration over sim.particles differs from the model", "")
                            break
                        if n:
                            if ps[-1].r != (model[-1]["uid"] if not tree else ps[-1].r) or ps[0].r != (model[0]["uid"] if not tree else ps[0].r):
                                viol("python", "sim.particles[-1] / [0] wrong", "")
                                break
                            if not tree and [p.r for p in ps[1:n:2]] != [m["uid"] for m in model[1:n:2]]:
                                viol("python", "slice of sim.particles wrong", "")
                                break
                        for bad in (n, n + 3, -n - 1):
                            try:
                                ps[bad]
                                viol("python", "out-of-range index accepted by sim.particles", "index %d with N=%d" % (bad, n))
                            except AttributeError:
                                pass
                        try:
                            ps["no-such-particle"]
                            viol("python", "unknown name accepted by sim.particles", "")
                        except rebound.ParticleNotFound:
                            pass
                        for m in model[:3]:
                            for nm in STR_NAMES:
                                if L.reb_hash(nm.encode()) == m["hash"]:
                                    if ps[nm].hash.value != m["hash"]:
                                        viol("python", "sim.particles[name] returned a particle with another hash", nm)
                        if viols:
                            break
        except RuntimeError as e:
            viol("op", "operation raised unexpectedly", "op %d %s: %s" % (k, kind, e))
            break
        with rb.quiet():
            try:
                sim.process_messages()      # drain messages queued by direct C calls
            except RuntimeError:
                pass
        kinds.append(kind + ":" + outcome)
        if base_before and ptr_particles() != base_before:
            probe("realloc_moved_particles")
        if not compare("after op %d (%s)" % (k, kind)):
            break
        a = rb.heap_audit()
        if a:
            viol("heap", "operation touched memory outside its storage", "after op %d (%s %s) mode %s: %s" % (k, kind, outcome, mode, a), key="heap:%s" % kind)
            break
    sig = None
    if had_removal and lookup_after_removal and not viols:
        from ..engine import digest_of
        sig = digest_of([mode, kinds])
    rb.setf_ptr(sim, "free_particle_ap", 0)
    return dict(viols=viols, sig=sig, probes=probes, sim={"ops": len(kinds), "steps": int(sim.steps_done)})
