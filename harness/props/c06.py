"""C06 — every archive snapshot equals the live state when taken, under any history.

One run = one seeded structural history against one archive file.  The model is the list of
serialisations of the live simulation captured by the I/O seam at the instant the library
opens the archive for writing (same thread, inside the library's own call stack), so it is exact
for manual *and* automatic snapshots.  The oracle runs on fresh objects built from the file only.
"""
import math
import os
import struct

from .. import simgen, ops as OPS

ID = "C06"
TITLE = "Every archive snapshot equals the live state when taken, under any history"
LEVEL = "exploration"
VARIANT = "io"
BUDGET = {"quick": 35, "thorough": 900}
RUN_CAP_S = 20.0
RULE = ("one run = one seeded history of structural operations (step/integrate, add, add-many across the 128-slot growth, remove by index/hash "
        "sorted/unsorted, remove-all + re-add, switch/reset integrator, setting edits, variational particles, MEGNO, display settings, merges, "
        "re-open of the archive in a fresh object) interleaved with manual and automatic (step / interval) snapshots. A run is non-trivial if it "
        "wrote >=2 snapshots with at least one structural op between two of them; distinct = distinct (integrator sequence, op-kind sequence) digests.")
COMPONENTS = {"real": ["binary diff encoder (binarydiff.c)", "archive writer/reader/index (simulationarchive.c)", "serialiser/deserialiser (output.c, input.c)",
                       "all integrators, particle add/remove, variational/MEGNO setup", "rebound Python package"],
              "simulated": ["snapshot-instant observer (fopen seam)", "wall clock incl. jumps", "heap placement (hostile allocator: garbage fill, always-move realloc, poison)"]}
ASSUMPTIONS = ["the serialiser is idempotent (calling it from the fopen observer right before the library calls it does not change what the library writes)",
               "callbacks are re-attached to every loaded snapshot before it is compared (field 87 records only whether any callback is set)"]
PROBES = ["reopened_last_step_dt", "vanished_field_history", "grew_past_128", "N_dropped_to_zero", "reopened", "auto_step_snapshots", "auto_interval_snapshots", "merge_changed_N", "op_raised", "returned_to_first_snapshot_time", "switched_to_new_archive_file", "archive_with_more_than_1024_snapshots", "archive_with_more_than_2048_snapshots"]

INTEGS = ["ias15", "whfast", "saba", "eos", "leapfrog", "janus", "mercurius", "trace", "bs", "sei", "none"]
SETS = [("softening", [0.0, 1e-3]), ("exit_max_distance", [0.0, 500.0]), ("ri_ias15.epsilon", [1e-9, 1e-7]), ("ri_ias15.adaptive_mode", [0, 1, 2, 3]),
        ("ri_whfast.corrector", [0, 3, 5, 11]), ("testparticle_type", [0, 1]), ("track_energy_offset", [0, 1]), ("collision_resolve_keep_sorted", [0, 1]),
        ("rand_seed", [1, 77]), ("ri_mercurius.r_crit_hill", [3.0, 4.0]), ("ri_bs.eps_rel", [1e-8, 1e-6]), ("ri_saba.type", [0x0, 0x2, 0x101, 0x6]),
        ("ri_eos.n", [1, 2, 4]), ("opening_angle2", [0.25, 0.5]), ("python_unit_l", [0, 7]), ("ri_trace.peri_crit_eta", [1.0, 0.5]),
        ("ri_janus.recalculate_integer_coordinates_this_timestep", [1]), ("exact_finish_time", [0, 1]), ("ri_sei.OMEGAZ", [1.0, 2.0])]


def generate(rng, tier, index):
    c = rng.derive("cfg")
    integ = INTEGS[index % len(INTEGS)] if index < 2 * len(INTEGS) else c.choice(INTEGS)
    cfg = simgen.gen_planetary_config(c, integrators=[integ], nmin=2, nmax=6, allow_collisions=False)
    cfg["alloc"] = c.choice([1, 2, 3])
    cfg["hb"] = True
    merge = integ in ("ias15", "leapfrog", "whfast", "mercurius") and c.chance(0.25)
    if merge:
        cfg["collision"] = "direct"
        cfg["collision_resolve"] = "merge"
        for p in cfg["particles"]:
            p["r"] = 1e-4
    o = rng.derive("ops")
    nops = o.randint(4, 14 if tier == "quick" else 25)
    auto = o.choice([None, None, "step", "interval"])
    ops = []
    nh = [2000]
    armed = False
    cur, many = integ, False
    SLOW = ("trace", "bs", "mercurius", "ias15")      # adaptive encounter integration of >250 random bodies costs minutes per step: a slow run, not a finding
    if o.chance(0.1):
        # numerically equal, bitwise different: the only thing that changes between the first and the second snapshot is the sign of a zero
        pk, co = o.randint(0, 20), o.choice(["vz", "z", "vy", "x"])
        first = o.choice([0, 1])
        ops += [dict(op="signed_zero", pick=pk, coord=co, neg=first), dict(op="snapshot"), dict(op="signed_zero", pick=pk, coord=co, neg=1 - first), dict(op="snapshot")]
    if auto and o.chance(0.12):
        # an armed run is pointed at a fresh file half way (same cadence): the new archive starts with the state at that moment
        v = o.randint(1, 4) if auto == "step" else abs(cfg["dt"]) * o.choice([1.0, 2.5, 4.0])
        ops += [dict(op="arm", kind=auto, value=v), dict(op="integrate", span=abs(cfg["dt"]) * o.choice([3.3, 7.0]), exact=o.choice([None, 0, 1])),
                dict(op="new_file"), dict(op="integrate", span=abs(cfg["dt"]) * o.choice([3.3, 7.0]), exact=o.choice([None, 0, 1]))]
    if integ in ("leapfrog", "whfast", "saba", "janus", "eos") and not merge and rng.derive("big").chance(0.015 if tier == "quick" else 0.03):
        # an archive with thousands of snapshots: the reader's index has to grow beyond its initial capacity, several times
        ops += [dict(op="arm", kind="step", value=1), dict(op="integrate", span=abs(cfg["dt"]) * rng.derive("big").randint(1030, 2300), exact=0)]
        auto = "step"
    if merge and rng.derive("tracefull").chance(0.05):
        # mergers inside a full TRACE pericentre step (the encounter map holds flags there, not indices)
        tf = rng.derive("tracefull")
        ops += [dict(op="switch", integrator="trace", opts={"ri_trace.r_crit_hill": tf.choice([2.0, 4.0]), "ri_trace.peri_crit_eta": 0.5, "ri_trace.peri_mode": 2}),
                dict(op="add_overlap", pick=tf.randint(0, 10), hash=2901), dict(op="add_overlap", pick=tf.randint(0, 10), hash=2902), dict(op="add_overlap", pick=tf.randint(0, 10), hash=2903),
                dict(op="steps", n=tf.randint(2, 4)), dict(op="snapshot")]
        cur = "trace"
    for i in range(nops):
        kind = o.weighted([("steps", 26), ("integrate", 10), ("snapshot", 24), ("add", 8), ("add_many", 1.5), ("remove", 8), ("remove_hash", 3),
                           ("remove_all", 2), ("switch", 6), ("reset_integrator", 4), ("set", 6), ("add_variation", 2), ("megno", 1),
                           ("display_settings", 1), ("move", 3), ("sync", 3), ("arm", 6 if auto else 0), ("clock_jump", 2),
                           ("reopen", 3), ("new_file", 4 if auto else 0), ("signed_zero", 2.5), ("back_to_t0", 2.5 if not auto else 0), ("add_overlap", 4 if merge else 0), ("set_lrescale", 3 if (cfg.get("var") or cfg.get("megno")) else 0.3)])
        if kind == "steps":
            ops.append(dict(op="steps", n=o.randint(1, 12)))
        elif kind == "integrate":
            ops.append(dict(op="integrate", span=abs(cfg["dt"]) * o.choice([0.5, 1.0, 3.3, 7.0, 12.5]), exact=o.choice([None, None, 0, 1])))
        elif kind == "snapshot":
            ops.append(dict(op="snapshot"))
        elif kind in ("add", "add_overlap"):
            nh[0] += 1
            if kind == "add":
                ops.append(dict(op="add", p=OPS.random_particle(o, r=(1e-4 if merge else 0.0), hash_=nh[0])))
            else:
                ops.append(dict(op="add_overlap", pick=o.randint(0, 10), hash=nh[0]))
        elif kind == "add_many" and cur in SLOW:
            nh[0] += 1
            ops.append(dict(op="add", p=OPS.random_particle(o, r=(1e-4 if merge else 0.0), hash_=nh[0])))
        elif kind == "add_many":
            many = True
            k = o.randint(125, 140)
            ps = []
            for j in range(k):
                nh[0] += 1
                ps.append(OPS.random_particle(o, m=0.0, hash_=nh[0]))
            ops.append(dict(op="add_many", ps=ps))
        elif kind == "remove":
            ops.append(dict(op="remove", pick=o.randint(0, 200), keep_sorted=o.choice([0, 1])))
        elif kind == "remove_hash":
            ops.append(dict(op="remove_hash", pick=o.randint(0, 200), keep_sorted=o.choice([0, 1])))
        elif kind == "remove_all":
            ops.append(dict(op="remove_all"))
            nh[0] += 2
            ops.append(dict(op="add", p=dict(m=1.0, x=0.0, y=0.0, z=0.0, vx=0.0, vy=0.0, vz=0.0, r=0.0, hash=nh[0] - 1)))
            ops.append(dict(op="add", p=OPS.random_particle(o, hash_=nh[0])))
        elif kind == "switch":
            ni = o.choice([x for x in INTEGS if not (many and x in SLOW)])
            cur = ni
            ops.append(dict(op="switch", integrator=ni, opts=simgen.integrator_opts(o, ni)))
        elif kind == "reset_integrator":
            ops.append(dict(op="reset_integrator"))
            if o.chance(0.7) or many:        # (reset_integrator selects IAS15)
                ni = o.choice([x for x in INTEGS if not (many and x in SLOW)])
                cur = ni
                ops.append(dict(op="switch", integrator=ni, opts=simgen.integrator_opts(o, ni)))
        elif kind == "set":
            path, vals = o.choice(SETS)
            ops.append(dict(op="set", path=path, value=o.choice(vals)))
        elif kind == "arm":
            if auto == "step":
                ops.append(dict(op="arm", kind="step", value=o.randint(1, 6)))
            else:
                ops.append(dict(op="arm", kind="interval", value=abs(cfg["dt"]) * o.choice([1.0, 2.5, 4.0, 9.0])))
        elif kind == "clock_jump":
            ops.append(dict(op="clock_jump", us=o.choice([3600 * 10**6, -3600 * 10**6, 10**12, -10**9])))
        elif kind == "back_to_t0":
            # time is not monotone in general: return to exactly the time of the first snapshot (a delta then carries no t field at all)
            if not any(x["op"] == "snapshot" for x in ops):
                ops.append(dict(op="snapshot"))
                ops.append(dict(op="steps", n=o.randint(1, 6)))
                ops.append(dict(op="snapshot"))
            ops.append(dict(op="back_to_t0", how=o.choice(["assign", "integrate"])))
            if o.chance(0.8):
                ops.append(dict(op="snapshot"))
        elif kind == "signed_zero":
            ops.append(dict(op="signed_zero", pick=o.randint(0, 20), coord=o.choice(["vz", "z", "vy"]), neg=o.choice([0, 1])))
            if o.chance(0.5):
                ops.append(dict(op="snapshot"))
        elif kind == "set_lrescale":
            ops.append(dict(op="set_lrescale", pick=o.randint(0, 5), value=o.choice([-1.0, 0.0, 12.5])))
        elif kind == "move":
            ops.append(dict(op="move", pick=o.randint(0, 50), dx=o.uniform(-1e-3, 1e-3), dvy=o.uniform(-1e-3, 1e-3), fm=o.choice([1.0, 1.5])))
        else:
            ops.append(dict(op=kind))
    ops.append(dict(op="snapshot"))
    return dict(config=cfg, ops=ops, clock_step=rng.derive("clk").choice([0, 1, 1000, 10**6]))


STRUCTURAL = {"add", "add_many", "remove", "remove_hash", "remove_all", "switch", "reset_integrator", "add_variation", "megno", "display_settings", "add_overlap", "reopen"}


def execute(case, ctx):
    import ctypes
    import rebound
    from .. import rb
    cfg = dict(case["config"])
    viols, probes = [], {}

    def probe(k, n=1):
        probes[k] = probes.get(k, 0) + n

    def viol(oracle, clause, detail, key=None):
        viols.append(dict(oracle=oracle, clause=clause, detail=detail, key=key or ("%s:%s" % (oracle, clause))))

    rb.alloc_level(cfg.get("alloc", 2))
    rb.clock_set(step_us=case.get("clock_step", 0))
    path = os.path.join(ctx.tmpdir, "c06.bin")
    if os.path.exists(path):
        os.unlink(path)
    cur = {"path": path, "n": 0}
    box = {"sim": simgen.build(rebound, rb, cfg)}
    if cfg.get("hb"):
        rb.hb_attach(box["sim"])
    model = []      # dict(bytes, t, steps, auto, cadence-state-after)
    state = {"in_integrate": False, "auto_kind": None, "auto_val": None, "next": None}

    def obs(p, mode):
        s = box["sim"]
        model.append(dict(b=rb.save_bytes(s), a=rb.A(s), t=s.t, steps=s.steps_done, auto=state["in_integrate"]))
    rb.set_fopen_observer(obs)
    kinds = []
    last_snap_kindpos = 0
    nontrivial = False
    nsteps = 0
    cad_states = []
    try:
        for i, op in enumerate(case["ops"]):
            ctx.op(i)
            sim = box["sim"]
            k = op["op"]
            kinds.append(k)
            nb = len(model)
            try:
                with rb.quiet():
                    for _ in range(64):     # (one queued error is raised per call: drain them all, or the next Python call raises a stale one)
                        try:
                            sim.process_messages()
                            break
                        except RuntimeError:
                            pass
                    if k == "snapshot":
                        sim.save_to_file(cur["path"])
                    elif k == "arm":
                        if op["kind"] == "step":
                            sim.save_to_file(cur["path"], step=op["value"])
                            if state["auto_kind"] != "step" or state["auto_val"] != op["value"]:
                                state.update(auto_kind="step", auto_val=op["value"], next=sim.steps_done)
                        else:
                            sim.save_to_file(cur["path"], interval=op["value"])
                            if state["auto_kind"] != "interval" or state["auto_val"] != op["value"]:
                                state.update(auto_kind="interval", auto_val=op["value"], next=sim.t)
                        state["armed"] = True
                    elif k == "new_file":
                        # the run is pointed at a fresh archive file with the same automatic cadence (delete_file=True, file does not exist):
                        # the schedule starts over, the first snapshot of the new archive is the state at the next boundary
                        if state.get("armed") and state["auto_kind"] and model:
                            cur["n"] += 1
                            cur["path"] = os.path.join(ctx.tmpdir, "c06-%d.bin" % cur["n"])
                            if os.path.exists(cur["path"]):
                                os.unlink(cur["path"])
                            del model[:]
                            del cad_states[:]
                            if state["auto_kind"] == "step":
                                state.update(next=sim.steps_done)
                                sim.save_to_file(cur["path"], step=state["auto_val"], delete_file=True)
                            else:
                                state.update(next=sim.t)
                                sim.save_to_file(cur["path"], interval=state["auto_val"], delete_file=True)
                            probe("switched_to_new_archive_file")
                    elif k == "add_many":
                        n0 = sim.N
                        for p in op["ps"]:
                            OPS.apply(rebound, rb, sim, cfg, dict(op="add", p=p))
                        if n0 <= 128 < sim.N:
                            probe("grew_past_128")
                    elif k == "add_overlap":
                        if sim.N - sim.N_var >= 1 and not sim.N_var and sim.dt > 0:      # (integrating backwards the planted pair counts as separating: no merger, but a 5e-5 binary that adaptive integrators resolve with ~1e6 steps)
                            sim.ri_whfast.keep_unsynchronized = 0
                            sim.ri_saba.keep_unsynchronized = 0
                            sim.synchronize()       # careful-user protocol (see harness/ops.py): positions are read and a particle is added
                            q = sim.particles[op["pick"] % sim.N]
                            # (the y offset keeps two plants on the same host apart: coincident bodies give 0/0 forces, and BS inside TRACE
                            #  retries a NaN step forever - an input outside every listed property, observed as 20 s wall-cap timeouts)
                            OPS.apply(rebound, rb, sim, cfg, dict(op="add", p=dict(m=1e-9, x=q.x + 5e-5, y=q.y + (op["hash"] % 5) * 1.1e-5, z=q.z, vx=q.vx, vy=q.vy, vz=q.vz, r=1e-4, hash=op["hash"])))
                    elif k == "back_to_t0":
                        if model and not state.get("armed") and sim.N - sim.N_var > 0:
                            t0 = model[0]["t"]
                            if op["how"] == "assign" or sim.integrator == "trace" or sim.N_active == 0:
                                sim.ri_whfast.keep_unsynchronized = 0
                                sim.ri_saba.keep_unsynchronized = 0
                                sim.synchronize()
                                sim.t = t0
                            else:
                                sim.integrate(t0, exact_finish_time=1)
                            if rb.dbits(sim.t) == rb.dbits(t0) and len(model) > 1:
                                probe("returned_to_first_snapshot_time")
                    elif k == "reopen":
                        if model:
                            new = rebound.Simulation(cur["path"])
                            if new.dt != 0 and abs(new.dt) < 1e-6 * abs(cfg["dt"]):
                                # the last snapshot was written inside the shortened final step of an exact-finish call and carries that remainder
                                # (possibly one ulp of t) as dt - known finding C07 restart:dt / C05 LAST_STEP; continuing with it costs 1e7 steps per
                                # op (20 s wall-cap timeouts, nothing for C06 to see), so the careful user sets the step size again after reopening
                                new.dt = math.copysign(abs(cfg["dt"]), new.dt)
                                probe("reopened_last_step_dt")
                            simgen.attach_callbacks(rebound, rb, new, cfg)
                            rb.hb_attach(new)
                            box["sim"] = new
                            sim = new
                            probe("reopened")
                            st = cad_states[-1]
                            state.update(auto_kind=st[0], auto_val=st[1], next=st[2])
                            if state.get("armed") and state["auto_kind"]:
                                if state["auto_kind"] == "step":
                                    sim.save_to_file(cur["path"], step=state["auto_val"])
                                else:
                                    sim.save_to_file(cur["path"], interval=state["auto_val"])
                    elif k == "integrate":
                        rb.hb_reset()
                        state["in_integrate"] = True
                        N0 = sim.N
                        try:
                            OPS.apply(rebound, rb, sim, cfg, op)
                        finally:
                            state["in_integrate"] = False
                            hb = rb.hb_take()
                        if sim.N < N0:
                            probe("merge_changed_N")
                    else:
                        N0 = sim.N
                        OPS.apply(rebound, rb, sim, cfg, op)
                        if k == "steps" and sim.N < N0:
                            probe("merge_changed_N")
                if k == "integrate" and state.get("armed") and state["auto_kind"]:
                    # cadence model over the boundaries the loop actually reached
                    exp = []
                    for b in hb:
                        if state["auto_kind"] == "step":
                            if state["next"] <= b["steps_done"]:
                                exp.append((b["steps_done"], rb.dbits(b["t"])))
                                state["next"] += state["auto_val"]
                        else:
                            sg = 1.0 if b["dt"] > 0 else -1.0
                            if sg * state["next"] <= sg * b["t"]:
                                exp.append((b["steps_done"], rb.dbits(b["t"])))
                                state["next"] += sg * state["auto_val"]
                    got = [(m["steps"], rb.dbits(m["t"])) for m in model[nb:]]
                    probe("auto_%s_snapshots" % state["auto_kind"], len(got))
                    if got != exp:
                        viol("cadence", "automatic snapshots not at the prescribed %s cadence" % state["auto_kind"],
                             "op %d: expected at steps %s, taken at steps %s (value %r)" % (i, [e[0] for e in exp], [g[0] for g in got], state["auto_val"]),
                             key="cadence:%s" % state["auto_kind"])
                        break
                elif k == "integrate" and len(model) != nb and not state.get("armed") and not state.get("cad_unknown"):
                    viol("cadence", "snapshot taken although no automatic cadence is armed", "op %d" % i)
                    break
            except (rebound.Escape, rebound.NoParticles, rebound.Encounter, rebound.Collision, rebound.GenericError, RuntimeError, AttributeError, ValueError) as e:
                probe("op_raised")
                kinds[-1] = k + "!"
                state["in_integrate"] = False
                if k == "integrate":
                    # cadence state unknown after an aborted integrate: resynchronise the model from the library's own
                    # counters is NOT done (it would make the model circular); stop the cadence oracle instead
                    state["armed"] = False
                    state["cad_unknown"] = True
            while len(cad_states) < len(model):
                cad_states.append((state["auto_kind"], state["auto_val"], state["next"]))
            if k in STRUCTURAL and len(model) >= 1:
                last_snap_kindpos = 1
            if len(model) > nb and last_snap_kindpos and nb >= 1:
                nontrivial = True
            if box["sim"].N == 0:
                probe("N_dropped_to_zero")
            if k in ("reset_integrator", "remove_all", "switch") and model:
                probe("vanished_field_history")
            a = rb.heap_audit()
            if a:
                viol("heap", "heap corruption", "after op %d (%s): %s" % (i, k, a))
                break
    finally:
        rb.set_fopen_observer(None)
    nsteps = int(box["sim"].steps_done)
    result = dict(viols=viols, sig=None, probes=probes, sim={"steps": nsteps, "snapshots": len(model)})
    if viols or not model:
        return result
    # ---- oracle on fresh objects built from the file only -----------------------------------------
    ctx.op(10**6)
    box["sim"] = None
    with rb.quiet() as q:
        try:
            sa = rebound.Simulationarchive(cur["path"])
        except RuntimeError as e:
            viol("archive", "archive unreadable after a fault-free history", "%d snapshots written: %s" % (len(model), e))
            return result
    if len(model) > 1024:
        probe("archive_with_more_than_1024_snapshots")
    if len(model) > 2048:
        probe("archive_with_more_than_2048_snapshots")
    if sa.nblobs != len(model):
        viol("archive", "wrong snapshot count", "written %d, archive reports %d (warnings: %s)" % (len(model), sa.nblobs, q.messages[:2]), key="archive:count")
        return result
    prev_off = -1
    # the Python wrapper's own view of the index
    if len(sa) != len(model) or rb.dbits(sa.tmin) != rb.dbits(model[0]["t"]) or rb.dbits(sa.tmax) != rb.dbits(model[-1]["t"]):
        viol("archive", "len / tmin / tmax of the Python archive object disagree with the snapshots written", "len %d (written %d), tmin %r tmax %r (first %r last %r)" % (
            len(sa), len(model), sa.tmin, sa.tmax, model[0]["t"], model[-1]["t"]), key="archive:python-index")
        return result
    for k in range(sa.nblobs):
        if rb.dbits(sa.t[k]) != rb.dbits(model[k]["t"]):
            viol("archive", "per-snapshot time wrong", "snapshot %d: index says %r, live t was %r" % (k, sa.t[k], model[k]["t"]), key="archive:time")
            return result
        if sa.offset[k] <= prev_off:
            viol("archive", "offsets not increasing", "snapshot %d" % k)
            return result
        prev_off = sa.offset[k]
        ctx.op(10**6 + k)
        with rb.quiet():
            s = sa[k]
            simgen.attach_callbacks(rebound, rb, s, cfg)
            rb.hb_attach(s)
            d = rb.S_diff(rb.S(s), rb.S_of_bytes(model[k]["b"]))
            if not d:
                # and through memory: the arrays of the loaded snapshot against the live arrays at the moment the snapshot was written
                d = rb.S_diff(rb.A(s), model[k]["a"])
            if not d and k % 3 == 1:
                # the same snapshot through a negative index
                if rb.S_diff(rb.S(sa[k - sa.nblobs]), rb.S(sa[k])):
                    d = [-1]        # (reported as field "-1:?": the negative-index form returned another snapshot)
        if d:
            viol("content", "snapshot differs from live state when taken", "snapshot %d of %d differs in fields %s; history %s" % (k, sa.nblobs, rb.describe_fields(d), kinds), key="content:snapshot-differs")
            return result
    a = rb.heap_audit()
    if a:
        viol("heap", "heap corruption", "while loading snapshots: %s" % a)
    if nontrivial:
        from ..engine import digest_of
        result["sig"] = digest_of(kinds)
    return result
