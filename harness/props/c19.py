"""C19 — concurrent simulations do not interfere; served snapshots are consistent.

All threads that execute librebound (integrators in worker threads, the built-in web server) run
under the seeded baton scheduler of sim/sched.c with basic-block pre-emption, a simulated clock
and a fake network.  Part A: K worker programs concurrently vs one after another (digests must
agree).  Part B: one integration with the real server thread and a seeded client script.
"""
import ctypes
import os
import struct

from .. import simgen

ID = "C19"
TITLE = "Concurrent simulations do not interfere; served snapshots are consistent"
LEVEL = "exploration"
VARIANT = "sched"
BUDGET = {"quick": 40, "thorough": 900}
RUN_CAP_S = 20.0
RULE = ("one run = one seeded schedule. Part A: K in 2..4 worker programs (load image, steps, integrate, copy, save+reload, archive append+reload, diff, "
        "synchronize, create/free) of different integrator families as threads under the baton scheduler; Part B: integrate() with the real web server thread and "
        "1..6 seeded client requests (/simulation, pause+resume) whose arrival is uniform over the tick horizon or biased into LAST_STEP / after-loop / inside "
        "synchronize windows. Non-trivial = >=1 context switch happened while two threads were inside librebound (A) or >=1 request was served (B); distinct = distinct "
        "schedule digests (hash of all hand-over decisions and client deliveries).")
COMPONENTS = {"real": ["every line of librebound incl. server.c request loop and the integrate loop", "real pthreads (parked on semaphores)", "rebound Python layer (single threaded) in part B"],
              "simulated": ["choice of which thread runs (baton scheduler, pre-emption at basic-block granularity)", "pthread mutex / join / cancel semantics", "usleep and the wall clock (discrete-event)",
                            "TCP listen/accept/close and the HTTP client (socketpair pre-loaded with a well-formed request)"]}
ASSUMPTIONS = ["sequentially consistent memory: races inside one basic block or due to hardware reordering are below the scheduler's resolution",
               "only well-formed requests are generated; arrival times are the quantified dimension",
               "the instrumented build (trace-pc, instrument-functions) may inline differently from the shipped one; bitwise oracles only compare runs of the same build"]
PROBES = ["A_switches", "B_requests_served", "B_served_in_LAST_STEP", "B_served_after_loop", "B_served_while_paused", "B_mutex_contended", "B_arrival_in_sync_window", "A_archive_ops", "A_copy_ops", "stalled_thread"]

A_INTEGS = ["ias15", "whfast", "saba", "eos", "leapfrog", "janus", "mercurius", "trace", "bs"]
B_INTEGS = ["whfast", "whfast", "saba", "mercurius", "ias15", "leapfrog", "janus", "eos", "bs", "trace"]


def generate(rng, tier, index):
    part = "A" if index % 3 == 0 else "B"
    s = rng.derive("sched")
    sched = dict(seed=s.u64() % (1 << 62), policy=s.choice([0, 0, 1, 1]), p=s.choice([0.003, 0.02, 0.1, 0.3]), bias_p=s.choice([0.3, 0.6]))
    st_ = rng.derive("stall")
    if st_.chance(0.4):
        # slow or stalled thread: parked for 2 ms .. 5 s of simulated time at a pre-emption point
        sched["stall_p"] = st_.choice([1e-5, 1e-4])
        sched["stall_us"] = st_.choice([2000, 600000, 5000000])
    if part == "A":
        sched["p"] = s.choice([0.001, 0.003, 0.02, 0.1])
        K = rng.derive("k").randint(2, 4)
        progs = []
        fr = rng.derive("fam")
        fams = fr.sample(A_INTEGS, K)
        if fr.chance(0.6):
            # hidden process-wide state is most likely shared between simulations of the SAME integrator family: run two or more of one family side by side
            for k in range(1, fr.randint(2, K) if K > 2 else 2):
                fams[k] = fams[0]
        for k in range(K):
            c = rng.derive("cfg", k)
            cfg = simgen.gen_planetary_config(c, integrators=[fams[k]], nmin=2, nmax=5, allow_var=c.chance(0.3))
            cfg.pop("units", None)
            if fams.count(fams[k]) > 1 and rng.derive("samefeat").chance(0.5) and fams[k] != "sei":
                # neighbours of one family also share the optional code paths (scratch buffers of the force callback, compensated summation, ...)
                cfg["force"] = "drag"
            o = rng.derive("ops", k)
            ops = []
            for i in range(o.randint(2, 6)):
                kind = o.weighted([("steps", 8), ("integrate", 3), ("copy", 2), ("saveload", 2), ("archive", 2), ("diff", 1), ("sync", 1), ("create_free", 1)])
                ops.append(dict(op=kind, n=o.randint(1, 5), x=abs(cfg["dt"]) * o.choice([0.5, 2.2, 5.0]) * (1 if cfg["dt"] > 0 else -1)))
            progs.append(dict(config=cfg, ops=ops))
        return dict(part="A", progs=progs, sched=sched)
    c = rng.derive("cfg")
    integ = B_INTEGS[(index // 3) % len(B_INTEGS)] if index < 90 else c.choice(B_INTEGS)
    cfg = simgen.gen_planetary_config(c, integrators=[integ], nmin=2, nmax=5, allow_var=False, allow_collisions=False)
    cfg["dt"] = abs(cfg["dt"])
    cfg.pop("units", None)
    cfg.pop("exit_max_distance", None)
    cfg.pop("force", None)
    if integ == "ias15":
        cfg["opts"] = {k: v for k, v in cfg["opts"].items() if k == "ri_ias15.adaptive_mode" and v in (1, 2)}     # tiny tolerances can stall the (serverless) reference run
    d = rng.derive("drv")
    nsteps = d.randint(3, 40)
    exact = d.choice([0, 1, 1])
    tmax = cfg["dt"] * (nsteps + d.choice([0.0, 0.37, 0.99]))
    if integ in ("ias15", "bs", "trace"):
        tmax = cfg["dt"] * d.choice([3.0, 11.3, 40.0])
    cl = rng.derive("clients")
    clients = []
    for i in range(cl.randint(1, 6)):
        kind = cl.weighted([("sim", 8), ("pause", 1.5)])
        win = cl.weighted([(0, 5), (1, 3), (2, 3), (4, 3)])
        frac = cl.random() if not cl.chance(0.3) else cl.uniform(0.85, 1.05)
        if kind == "sim":
            clients.append(dict(kind="sim", frac=frac, window=win))
        else:
            clients.append(dict(kind="pause", frac=frac, window=0))
            # the resume is delivered only once the simulation really is paused (a pause that arrives while the run is not in
            # RUNNING state is ignored by the server, and an unconditional second toggle would then pause the run for good)
            clients.append(dict(kind="resume", frac=frac, window=3, after_prev=True))
    # a user heartbeat that updates the simulation in two phases (the loop must not let a request see the state in between)
    return dict(part="B", config=cfg, tmax=tmax, exact=exact, clients=clients, sched=sched, hb2=(rng.derive("hb2").chance(0.4) and not os.environ.get("VERIF_NOHB2")))


def shrink(case, still_fails, viol=None):
    """drop clients / worker ops, simplify the scheduler policy"""
    from ..engine import ddmin
    c = dict(case)
    if c["part"] == "B":
        def f(cl):
            c2 = dict(c)
            c2["clients"] = cl
            return still_fails(c2)
        # pause/resume pairs stay together: shrink at pair granularity
        units, i = [], 0
        cls = c["clients"]
        while i < len(cls):
            if cls[i]["kind"] == "pause" and i + 1 < len(cls):
                units.append([cls[i], cls[i + 1]]); i += 2
            else:
                units.append([cls[i]]); i += 1
        keep = ddmin(units, lambda us: f([x for u in us for x in u]))
        c["clients"] = [x for u in keep for x in u]
    else:
        for k in range(len(c["progs"])):
            def f(ops, k=k):
                c2 = dict(c)
                c2["progs"] = [dict(p) for p in c["progs"]]
                c2["progs"][k]["ops"] = ops
                return still_fails(c2)
            c["progs"] = [dict(p) for p in c["progs"]]
            c["progs"][k]["ops"] = ddmin(c["progs"][k]["ops"], f)
    return c


def _flags(cfg):
    f = 0
    if cfg.get("collision", "none") != "none":
        f |= 1 if cfg.get("collision_resolve") == "merge" else 2
    if cfg.get("force") == "drag":
        f |= 4
    return f


def execute(case, ctx):
    import rebound
    from .. import rb
    from .. import schedlib as SL
    from ..engine import digest_of
    viols, probes = [], {}

    def probe(k, n=1):
        probes[k] = probes.get(k, 0) + n

    def viol(oracle, clause, detail, key=None):
        viols.append(dict(oracle=oracle, clause=clause, detail=detail, key=key or ("%s:%s" % (oracle, clause))))

    rb.alloc_level(1)          # constant garbage fill: uninitialised scratch is identical in every execution
    rb.clock_set(step_us=0)
    sc = case["sched"]
    if case["part"] == "A":
        images, flags = [], []
        with rb.quiet():
            for p in case["progs"]:
                s = simgen.build(rebound, rb, p["config"])
                images.append(rb.save_bytes(s))
                flags.append(_flags(p["config"]))
                del s

        def make(tag):
            progs, keep = [], []
            for k, p in enumerate(case["progs"]):
                ops = (SL.WOp * len(p["ops"]))(*[SL.WOp(SL.W[o["op"]], o["n"], o["x"]) for o in p["ops"]])
                cap = 4 * len(p["ops"]) + 8
                dg = (ctypes.c_uint64 * cap)()
                path = os.path.join(ctx.tmpdir, "c19-%s-%d.bin" % (tag, k)).encode()
                if os.path.exists(path):
                    os.unlink(path)
                wp = SL.WProg(images[k], len(images[k]), flags[k], ops, len(p["ops"]), path, dg, 0, cap, 0)
                progs.append(wp)
                keep.append((ops, dg, path))
            return progs, keep
        ctx.op(1)
        progs, keep = make("seq")
        rb.alloc_fill(0x00)         # run one after another the simulations find other garbage in fresh heap memory than side by side
        SL.begin(sc["seed"], SL.POL_NONE)
        arr = SL.run_workers(progs, 0)
        SL.end()
        rb.alloc_fill(0xCB)
        seq = [([arr[k].digests[i] for i in range(min(arr[k].ndig, arr[k].capdig))], arr[k].error) for k in range(len(progs))]
        ctx.op(2)
        rb.clock_set(step_us=0)
        progs2, keep2 = make("con")
        SL.begin(sc["seed"], sc["policy"], sc["p"], sc["bias_p"])
        if sc.get("stall_p"):
            SL.set_stall(sc["stall_p"], sc["stall_us"])
        arr2 = SL.run_workers(progs2, 1)
        st = SL.stats()
        probe("stalled_thread", SL.stalls())
        SL.end()
        con = [([arr2[k].digests[i] for i in range(min(arr2[k].ndig, arr2[k].capdig))], arr2[k].error) for k in range(len(progs2))]
        probe("A_switches", st["switches"])
        for p in case["progs"]:
            probe("A_archive_ops", sum(1 for o in p["ops"] if o["op"] == "archive"))
            probe("A_copy_ops", sum(1 for o in p["ops"] if o["op"] in ("copy", "saveload")))
        for k in range(len(seq)):
            if seq[k] != con[k]:
                first = next((i for i in range(min(len(seq[k][0]), len(con[k][0]))) if seq[k][0][i] != con[k][0][i]), None)
                viol("isolation", "concurrent execution differs from sequential execution",
                     "worker %d (%s): first differing digest index %s of %d (ops %s); error flags %s vs %s" % (k, case["progs"][k]["config"]["integrator"], first, len(seq[k][0]),
                                                                                                              [o["op"] for o in case["progs"][k]["ops"]], seq[k][1], con[k][1]),
                     key="isolation:%s" % case["progs"][k]["config"]["integrator"])
                break
        sig = ("A%x" % st["digest"]) if st["switches"] >= 1 else None
        return dict(viols=viols, sig=sig, probes=probes, sim={"ticks": st["ticks"], "switches": st["switches"], "simulated_us": st["ticks"]})

    # ---------------- part B ---------------------------------------------------------------------
    cfg = case["config"]
    tmax, exact = case["tmax"], case["exact"]
    ctx.op(1)
    with rb.quiet():
        ref = simgen.build(rebound, rb, cfg)
        rb.hb_reset()
        (rb.hb_attach_twophase if case.get("hb2") else rb.hb_attach)(ref)
        SL.begin(sc["seed"], SL.POL_NONE, tick_cap=2**62)      # the serverless reference run is not under test: no tick cap to speak of
        try:
            ref.integrate(tmax, exact_finish_time=exact)
        finally:
            H = SL.stats()["ticks"]
            SL.end()
        bounds = rb.hb_take()
    if H > 4 * 10**6:
        # too long for a scheduled run within the per-run budget (adaptive integrator with a tiny tolerance): not explored
        return dict(viols=viols, sig=None, probes={"reference_too_long_skipped": 1}, sim={"ticks": H, "switches": 0, "simulated_us": H})
    with rb.quiet():
        pass
    Tref = rb.T(ref)
    bset = set((b["steps_done"], rb.dbits(b["t"])) for b in bounds)
    ctx.op(2)
    rb.clock_set(step_us=0)
    with rb.quiet():
        sim = simgen.build(rebound, rb, cfg)
        rb.hb_reset()
        (rb.hb_attach_twophase if case.get("hb2") else rb.hb_attach)(sim)
        SL.begin(sc["seed"], sc["policy"], sc["p"], sc["bias_p"], tick_cap=max(2000000, 400 * H))
        if sc.get("stall_p"):
            SL.set_stall(sc["stall_p"], sc["stall_us"])
        SL.L.verif_sched_watch(ctypes.addressof(sim))
        ids = []
        prev_tick = 0
        for cl in case["clients"]:
            at = int(cl["frac"] * H)
            if cl.get("after_prev"):
                at = max(at, prev_tick + 1)
            prev_tick = at
            req = {"sim": b"GET /simulation HTTP/1.1\r\nHost: x\r\n\r\n", "pause": b"GET /keyboard/32 HTTP/1.1\r\nHost: x\r\n\r\n",
                   "resume": b"GET /keyboard/32 HTTP/1.1\r\nHost: x\r\n\r\n"}[cl["kind"]]
            ids.append(SL.add_client(at, cl["window"], req))
        try:
            sim.start_server(port=1234)
            ctx.op(3)
            sim.integrate(tmax, exact_finish_time=exact)
            ctx.op(4)
            sim.stop_server()
        finally:
            st = SL.stats()
            probe("stalled_thread", SL.stalls())
            infos = [SL.client_info(i) for i in ids]
            bodies = [SL.read_response(inf["fd"]) if inf["delivered"] and inf["fd"] >= 0 else None for inf in infos]
            SL.end()
    ctx.op(5)
    probe("B_mutex_contended", st["mutex_contended"])
    probe("B_arrival_in_sync_window", st["arrival_in_sync"])
    # 1. trajectory untouched
    if rb.T(sim) != Tref:
        key = "server:trajectory"
        if sim.steps_done != ref.steps_done and any(cl["kind"] == "pause" and inf["delivered"] for cl, inf in zip(case["clients"], infos)):
            # the pause key handler tests and sets r->status without synchronisation against reb_check_exit deciding to leave the loop
            key = "server:trajectory:pause-toggle-races-with-loop-exit"
        viol("server", "serving requests altered the trajectory", "T differs from the serverless run (t %r vs %r, steps %d vs %d)" % (sim.t, ref.t, sim.steps_done, ref.steps_done), key=key)
        # the reference boundaries no longer describe this run: the per-response oracles below would only repeat the same finding
        return dict(viols=viols, sig=None, probes=probes, sim={"ticks": st["ticks"], "switches": st["switches"], "steps": int(sim.steps_done), "simulated_us": st["ticks"]})
    served = 0
    for ci, (cl, inf, body) in enumerate(zip(case["clients"], infos, bodies)):
        if not inf["delivered"]:
            continue
        if body is None or b"\n\r\n" not in body:
            viol("server", "an accepted request did not receive a complete response", "client %d (%s) delivered at tick %d: %r" % (ci, cl["kind"], inf["tick"], (body or b"")[:60]), key="server:no-response")
            continue
        if cl["kind"] != "sim":
            continue
        served += 1
        probe("B_requests_served")
        payload = body.split(b"\n\r\n", 1)[1]
        hdr, fields, pos, ok = rb.parse_stream(payload)
        if not ok:
            viol("server", "served body is not a complete snapshot", "client %d at tick %d (status %d): %d bytes" % (ci, inf["tick"], inf["status"], len(payload)), key="server:incomplete")
            continue
        fd = dict(fields)
        t_s = fd.get(0)
        sd = struct.unpack("<Q", fd[137])[0] if 137 in fd else None
        status = struct.unpack("<i", fd[11])[0] if 11 in fd else None
        if status == -2:
            probe("B_served_in_LAST_STEP")
        elif status is not None and status >= 0:
            probe("B_served_after_loop")
        elif status == -3:
            probe("B_served_while_paused")
        if (sd, t_s) not in bset:
            viol("server", "served snapshot does not correspond to a step boundary of the run", "client %d: steps_done=%s t=%r status=%s" % (ci, sd, struct.unpack("<d", t_s)[0] if t_s else None, status), key="server:not-a-boundary")
            continue
        # 3. the run can be continued from it bit for bit
        with rb.quiet() as q:
            try:
                R = rebound.Simulation(payload)
            except RuntimeError as e:
                viol("server", "served snapshot cannot be loaded", str(e), key="server:unloadable")
                continue
            simgen.attach_callbacks(rebound, rb, R, cfg)
            if R._status == -3:
                R._status = -1      # a snapshot served while paused: the continuing user resumes it
            try:
                last = bounds[-1]
                if (sd, t_s) == (last["steps_done"], rb.dbits(last["t"])) and sd > 0:
                    R.synchronize()     # the loop had already ended: all that is left of the run is its final synchronisation
                else:
                    R.integrate(tmax, exact_finish_time=exact)
            except (rebound.Escape, rebound.NoParticles, rebound.Encounter, rebound.Collision, rebound.GenericError, RuntimeError) as e:
                viol("server", "continuation of a served snapshot raised", "%s" % e, key="server:continuation-raised")
                continue
        if any("corrupt" in m.lower() or "unknown field" in m.lower() for m in q.messages):
            viol("server", "served snapshot parses with corruption warnings", str(q.messages[:2]), key="server:warnings")
        if rb.T(R) != Tref:
            if os.environ.get("VERIF_DEBUG"):
                print("DEBUG is_sync fields", {k: struct.unpack("<I", fd[k])[0] for k in (65, 141, 120, 152) if k in fd}, "dt", struct.unpack("<d", fd[3])[0], "dt_last_done", struct.unpack("<d", fd[145])[0], "delivered", inf)
                print("DEBUG continuation mismatch: snapshot status", status, "sd", sd, "R.t", R.t, "R.dt", R.dt, "R.status", R._status, "R.steps", R.steps_done, "tmax", tmax, "exact", exact, "msgs", q.messages)
            key = "server:continuation"
            synced = {"whfast": 65, "saba": 141, "mercurius": 120, "eos": 152}.get(cfg["integrator"])
            phase = "status=%s" % status
            if cfg["integrator"] in ("ias15", "mercurius", "trace"):
                with rb.quiet():
                    Rk = rebound.Simulation(payload)
                    simgen.attach_callbacks(rebound, rb, Rk, cfg)
                    try:
                        rb.integrate_keeping_dt_last_done(Rk, tmax, exact)
                        if rb.T(Rk) == Tref:
                            key = "server:continuation:dt_last_done-zeroed-on-integrate-entry"
                    except Exception:
                        pass
            unsafe = cfg.get("opts", {}).get("ri_%s.safe_mode" % cfg["integrator"], 1) == 0
            # the two unprotected synchronise calls happen at the boundary where LAST_STEP is entered and after the loop; the server may
            # have copied the scalar fields (status, flags) before the main thread changed them, so the phase is identified by the boundary
            near_end = sd is not None and len(bounds) >= 2 and sd >= bounds[-2]["steps_done"]
            if key == "server:continuation" and status is not None and (status == -2 or status >= 0 or near_end) and synced is not None and unsafe:
                # snapshot taken while the main thread was inside / after the unprotected synchronise at the end of the run
                key = "server:continuation:torn-during-final-synchronize"
            if key == "server:continuation" and exact == 1 and status == -2 and abs(int(R.steps_done) - int(ref.steps_done)) <= 1 \
                    and abs(R.t - ref.t) <= 1e-12 * abs(tmax) and abs(R.t - tmax) <= 1e-12 * abs(tmax) and abs(ref.t - tmax) <= 1e-12 * abs(tmax):
                # the snapshot was served at the boundary where integrate() had already entered LAST_STEP (shortened dt, status persisted): continuing it re-enters
                # integrate() in state RUNNING and may take one more step of ~1e-16 to land on the target (same defect as the C05 / C07 findings)
                pa, pb = rb.particles_raw(R), rb.particles_raw(ref)
                close = len(pa) == len(pb)
                if close:
                    for q_ in range(0, len(pa), rb.PART.size):
                        va, vb = struct.unpack_from("<6d", pa, q_), struct.unpack_from("<6d", pb, q_)
                        if any(abs(x - y) > 1e-12 * (abs(x) + abs(y) + 1e-300) for x, y in zip(va, vb)):
                            close = False
                            break
                if close:
                    key = "server:continuation:snapshot-served-in-LAST_STEP"
            if key == "server:continuation" and case.get("hb2") and sd is not None and bounds and sd == bounds[0]["steps_done"] and R.N == ref.N and R.N >= 2:
                # served before the first step of this integrate() call: the initial heartbeat of reb_simulation_integrate_raw runs before the loop has taken the
                # server mutex, so a request can see the state between the two phases of a heartbeat that updates the simulation (the planted disturbance of the
                # last particle's mass, exactly)
                m_ref = ref.particles[ref.N - 1].m
                if rb.dbits(R.particles[R.N - 1].m) == rb.dbits(m_ref * 1.5 + 1e-3):
                    key = "server:continuation:initial-heartbeat-outside-mutex"
            viol("server", "continuing the served snapshot does not reproduce the run", "client %d (%s, arrived tick %d of ~%d, %s, steps_done %s): final t %r vs %r" % (ci, cfg["integrator"], inf["tick"], H, phase, sd, R.t, ref.t), key=key)
    sig = ("B%x" % st["digest"]) if served else None
    return dict(viols=viols, sig=sig, probes=probes, sim={"ticks": st["ticks"], "switches": st["switches"], "steps": int(sim.steps_done), "simulated_us": st["ticks"]})
