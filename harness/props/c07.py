"""C07 — a crash during an archive write never loses completed snapshots.

One run = one seeded history (configuration + snapshot driver).  The uninterrupted execution
yields the reference archive, its write log and the model M* (live state serialised at the
instant the library opens the archive for writing).  Then EVERY byte-prefix of EVERY write
(initial full write, in-place patch of the previous trailer, delta, END marker, new trailer) is
turned into a crash image and opened; a subset (all structural boundaries +-2 bytes, a seeded
sample of the rest; everything in the thorough tier) is restarted and driven to the end, with
seeded multi-cycle crash chains on top.
"""
import os
import struct
import time

from .. import simgen

ID = "C07"
TITLE = "A crash during an archive write never loses completed snapshots"
LEVEL = "fault_enumeration"
VARIANT = "io"
BUDGET = {"quick": 40, "thorough": 900}
RUN_CAP_S = 240.0
RULE = ("one run = one seeded history (integrator+options, N, snapshot driver: manual by steps / manual by integrate / "
        "automatic by step / automatic by interval); within it every byte-prefix crash image of every archive write is opened "
        "(exhaustive), boundary+-2 and a seeded sample are restarted and completed, plus seeded multi-cycle crash chains. "
        "distinct_nontrivial counts distinct (history digest, snapshot index, region) triples with at least one image whose "
        "bytes differ from both the previous completed file and the next completed file.")
COMPONENTS = {"real": ["librebound archive writer/reader/binary diff (all of simulationarchive.c, output.c, input.c, binarydiff.c)",
                       "all integrators", "rebound Python package (Simulationarchive, Simulation)", "glibc stdio on real files"],
              "simulated": ["process death (byte-prefix crash images computed from the write log)", "restart (fresh objects built from the image bytes only)",
                            "wall clock", "heap placement (hostile allocator)"]}
ASSUMPTIONS = ["crash model = process death: program-order byte prefixes of the stdio writes (power-loss reordering is not claimed by the property)",
               "restart runs in the same worker process but uses nothing except the image bytes and the case description (callbacks re-attached)",
               "IAS15/BS/TRACE continuation compared bitwise exactly like fixed-step integrators"]
PROBES = ["repair_path_taken", "trailer_patch_torn", "extra_complete_snapshot_exposed", "error_raised_on_open", "chain_depth2", "chain_depth3"]

INTEGS = ["whfast", "whfast", "saba", "mercurius", "janus", "leapfrog", "eos", "ias15", "trace", "bs"]
WALLTIME_FIELDS = (126, 127)


def generate(rng, tier, index):
    integ = INTEGS[index % len(INTEGS)] if index < 2 * len(INTEGS) else rng.choice(INTEGS)
    cfg = simgen.gen_planetary_config(rng.derive("cfg"), integrators=[integ], nmin=2, nmax=4 if tier == "quick" else 8,
                                      allow_var=rng.chance(0.3), allow_collisions=False)
    cfg["alloc"] = rng.choice([1, 2, 3])
    d = rng.derive("driver")
    mode = d.choice(["manual_steps", "manual_integrate", "auto_step", "auto_interval"])
    nsnap = d.randint(2, 3 if tier == "quick" else 6)
    chunk = d.randint(1, 5)
    drv = dict(mode=mode, nsnap=nsnap, chunk=chunk)
    if mode in ("manual_integrate", "auto_interval"):
        drv["Dt"] = abs(cfg["dt"]) * chunk * d.choice([1.0, 1.37, 0.99999])
        if cfg["integrator"] in ("ias15", "bs", "trace"):
            drv["Dt"] = abs(cfg["dt"]) * d.choice([2.0, 5.0, 11.3])
    f = rng.derive("faults")
    return dict(config=cfg, driver=drv, clock_step=f.choice([0, 0, 1, 1000, 1000000]),
                restart_sample=(0.01 if tier == "quick" else 0.25), chains=f.randint(0, 3), fseed=f.u64() % (1 << 31))


# ----------------------------------------------------------------------------------------------
def run_driver(rebound, sim, drv, path, start_k, keep_dld=False):
    """(Re-)enter the snapshot driver at snapshot index start_k.
    keep_dld: counterfactual used only to classify a mismatch - integrate() with the persisted dt_last_done put back after integrate() zeroed it."""
    mode, nsnap, chunk = drv["mode"], drv["nsnap"], drv["chunk"]
    sgn = 1.0 if sim.dt > 0 else -1.0
    if keep_dld:
        from .. import rb as _rb
        _orig = sim.integrate

        def _integ(t, exact_finish_time=1):
            _rb.integrate_keeping_dt_last_done(sim, t, exact_finish_time)
        integrate = _integ
    else:
        integrate = sim.integrate
    if mode == "manual_steps":
        for k in range(start_k, nsnap):
            if k > 0:
                sim.steps(chunk)
            sim.save_to_file(path)
    elif mode == "manual_integrate":
        for k in range(start_k, nsnap):
            if k > 0:
                integrate(sgn * k * drv["Dt"])
            sim.save_to_file(path)
    elif mode == "auto_step":
        sim.save_to_file(path, step=chunk)
        # integrate long enough for nsnap snapshots; stop from the step counter, not from time
        integrate(drv["T"])
    elif mode == "auto_interval":
        sim.save_to_file(path, interval=drv["Dt"])
        integrate(sgn * (nsnap - 1 + 0.5) * drv["Dt"])


def _tmax_steps(sim, drv):
    # auto_step: the run is ended by a target time derived from the *configured* dt (fixed in the case)
    return drv["T"]


def exposed(rebound, rb, cfg, path):
    """-> (n, error_text|None, warnings, archive)"""
    with rb.quiet() as q:
        try:
            sa = rebound.Simulationarchive(path)
            n = sa.nblobs
            err = None
        except RuntimeError as e:
            sa, n, err = None, 0, str(e)
    return n, err, q.messages, sa


def load_S(rebound, rb, cfg, sa, k, drop=()):
    with rb.quiet():
        s = sa[k]
        simgen.attach_callbacks(rebound, rb, s, cfg)
        return rb.S(s, drop=drop)


def segments_of(events):
    segs = []
    cur = None
    for ev in events:
        if ev[0] == "open":
            cur = dict(mode=ev[2], writes=[])
        elif ev[0] == "write" and cur is not None:
            cur["writes"].append((ev[2], ev[3]))
        elif ev[0] == "close" and cur is not None:
            segs.append(cur)
            cur = None
    if cur is not None:
        segs.append(cur)
    return segs


def apply_write(F, off, data, k=None):
    if k is None:
        k = len(data)
    if off > len(F):
        F = F + b"\0" * (off - len(F))
    return F[:off] + data[:k] + F[off + k:]


def region(j, wi, k, ln):
    if j == 0:
        if k < 64:
            return "first:header"
        if k >= ln - 12:
            return "first:trailer"
        if k >= ln - 28:
            return "first:end"
        return "first:fields"
    return ("append:trailer-patch", "append:delta", "append:end", "append:trailer")[min(wi, 3)]


def execute(case, ctx):
    import rebound
    from .. import rb
    from ..rng import Rng
    cfg, drv = case["config"], dict(case["driver"])
    viols, probes, faults, sigs = [], {}, {"crash_image_open": [0, 0], "crash_restart": [0, 0], "crash_chain": [0, 0], "clock_step": [0, 0]}, []

    def probe(k, n=1):
        probes[k] = probes.get(k, 0) + n

    def viol(oracle, clause, detail, key=None, **extra):
        v = dict(oracle=oracle, clause=clause, detail=detail, key=key or ("%s:%s" % (oracle, clause)))
        v.update(extra)
        viols.append(v)
        return v

    rb.alloc_level(cfg.get("alloc", 2))
    rb.clock_set(step_us=case.get("clock_step", 0))
    if case.get("clock_step"):
        faults["clock_step"] = [1, 1]
    if drv["mode"] == "auto_step":
        sgn = 1.0 if cfg["dt"] > 0 else -1.0
        drv["T"] = sgn * abs(cfg["dt"]) * (drv["chunk"] * (drv["nsnap"] - 1) + 0.5)
    path = os.path.join(ctx.tmpdir, "ref.bin")
    ipath = os.path.join(ctx.tmpdir, "img.bin")
    rpath = os.path.join(ctx.tmpdir, "restart.bin")
    for p in (path, ipath, rpath):
        if os.path.exists(p):
            os.unlink(p)

    # ---- 1. uninterrupted run: reference archive, write log, model -------------------------
    model = []
    sim = simgen.build(rebound, rb, cfg)

    def obs(p, mode):
        model.append(rb.save_bytes(sim))
    rb.set_fopen_observer(obs)
    rb.wlog_start()
    ctx.op(-10)
    with rb.quiet():
        run_driver(rebound, sim, drv, path, 0)
    events = rb.wlog_take()
    rb.set_fopen_observer(None)
    steps_ref = sim.steps_done
    segs = segments_of(events)
    if len(segs) != len(model) or len(segs) < 1:
        raise RuntimeError("harness: %d write segments but %d observed snapshots" % (len(segs), len(model)))
    MS = [rb.S_of_bytes(b) for b in model]
    MSnw = [{k: v for k, v in s.items() if k not in WALLTIME_FIELDS} for s in MS]
    nref = len(MS)
    # interval cadence is only defined while no step is longer than the interval: if a snapshot's
    # own next-threshold is already behind its time, the library takes "one snapshot per step"
    # and a restart at that boundary legitimately takes the pending one (DESIGN.md C06/C07).
    lagging = False
    if drv["mode"] == "auto_interval":
        sg = 1.0 if cfg["dt"] > 0 else -1.0
        for s_ in MS:
            t_ = struct.unpack("<d", s_[0])[0]
            nx = struct.unpack("<d", s_[48])[0]
            if sg * nx <= sg * t_:
                lagging = True
        if lagging:
            probe("interval_cadence_lagging_history(restart_checks_skipped)")
    hist = rb.S_hex(MS[-1])[:10] + "/%d" % nref

    # ---- 2. fault-free control ----------------------------------------------------------------
    ctx.op(-9)
    n, err, warns, sa = exposed(rebound, rb, cfg, path)
    if n != nref:
        viol("control", "uninterrupted archive exposes wrong number of snapshots", "expected %d got %d (%s)" % (nref, n, err))
        return dict(viols=viols, sig=None, probes=probes, faults=faults, sim={"steps": steps_ref})
    for k in range(n):
        d = rb.S_diff(load_S(rebound, rb, cfg, sa, k), MS[k])
        if d:
            viol("control", "uninterrupted snapshot differs from live state at save time", "snapshot %d fields %s" % (k, rb.describe_fields(d)))
            return dict(viols=viols, sig=None, probes=probes, faults=faults, sim={"steps": steps_ref})
    del sa
    a = rb.heap_audit()
    if a:
        viol("heap", "heap corruption during uninterrupted run", a)

    # ---- 3. crash images -------------------------------------------------------------------------
    frng = Rng(case.get("fseed", 1))
    only = case.get("only_points")       # replay/shrink: [[j, wi, k], ...]
    complete = [b""]                     # file content after each completed snapshot
    F = b""
    for s in segs:
        if "w" in s["mode"]:
            F = b""
        for off, data in s["writes"]:
            F = apply_write(F, off, data)
        complete.append(F)

    def check_image(img, K, tag, model_S=MS, total=None):
        """open-check one image. Returns n exposed (or None after a violation)."""
        open(ipath, "wb").write(img)
        faults["crash_image_open"][1] += 1
        n, err, warns, sa = exposed(rebound, rb, cfg, ipath)
        if err is not None:
            probe("error_raised_on_open")
        if n < K:
            viol("open", "completed snapshot lost", "%s: %d writes completed but %d snapshots exposed (%s)" % (tag, K, n, err), point=tag)
            return None
        if n > K + 1 or n > len(model_S):
            viol("open", "more snapshots exposed than were ever started", "%s: completed=%d exposed=%d" % (tag, K, n), point=tag)
            return None
        if n == 0:
            if err is None:
                viol("open", "no error reported although no complete snapshot exists", tag, point=tag)
                return None
            return 0
        if n == K + 1:
            probe("extra_complete_snapshot_exposed")
            # a snapshot is exposed although its write had not completed. Where exactly was the write cut?
            e_ = len(complete[K + 1]) if (model_S is MS and K + 1 < len(complete)) else None
            if e_ is not None:
                if K == 0 and e_ - 12 <= len(img) < e_:
                    # known finding: the very first snapshot has no predecessor to check its trailer against; it is exposed as soon as its END marker is on disk
                    viol("open", "first snapshot exposed although its trailer had not been written completely", "%s: file has %d of %d bytes" % (tag, len(img), e_),
                         key="open:first-snapshot-exposed-with-partial-trailer", point=tag)
                else:
                    viol("open", "a snapshot whose write had not completed is exposed", "%s: completed=%d exposed=%d, file has %d bytes, the snapshot being written would end at %d" % (tag, K, n, len(img), e_),
                         key="open:incomplete-snapshot-exposed", point=tag)
                    return None
        # content of the last two exposed snapshots (earlier ones read only bytes the crash never touched)
        # (images of a restarted run - chains - contain snapshots written by a process with another wall-clock history: the walltime fields are not state)
        dropw = WALLTIME_FIELDS if ">cycle" in tag else ()
        for k in sorted(set([n - 1, max(0, n - 2), 0])):
            d = rb.S_diff(load_S(rebound, rb, cfg, sa, k, drop=dropw), {f_: v_ for f_, v_ in model_S[k].items() if f_ not in dropw})
            if d:
                viol("open", "exposed snapshot differs from the uninterrupted run", "%s: snapshot %d of %d fields %s" % (tag, k, n, rb.describe_fields(d)), point=tag)
                return None
        # the other entry points must agree
        if total is None or total % 7 == 0:
            with rb.quiet():
                try:
                    s2 = rebound.Simulation(ipath)
                    simgen.attach_callbacks(rebound, rb, s2, cfg)
                    d = rb.S_diff(rb.S(s2, drop=dropw), {f_: v_ for f_, v_ in model_S[n - 1].items() if f_ not in dropw})
                    if d:
                        viol("open", "Simulation(file) differs from last exposed snapshot", "%s fields %s" % (tag, rb.describe_fields(d)), point=tag)
                        return None
                except RuntimeError as e:
                    viol("open", "Simulation(file) raises although snapshots are exposed", "%s: %s" % (tag, e), point=tag)
                    return None
        return n

    def c_entry_points(img, n_expected, tag):
        """the pure C entry points (different ownership of the archive handle on the error path)"""
        import ctypes
        open(ipath, "wb").write(img)
        L = rb.L
        L.reb_simulationarchive_create_from_file.restype = ctypes.c_void_p
        L.reb_simulationarchive_free.argtypes = [ctypes.c_void_p]
        L.reb_simulation_create_from_file.restype = ctypes.c_void_p
        L.reb_simulation_create_from_file.argtypes = [ctypes.c_char_p, ctypes.c_int64]
        L.reb_simulation_free.argtypes = [ctypes.c_void_p]
        devnull = os.open(os.devnull, os.O_WRONLY)
        saved = (os.dup(1), os.dup(2))
        os.dup2(devnull, 1)
        os.dup2(devnull, 2)
        try:
            p = L.reb_simulationarchive_create_from_file(ipath.encode())
            if p:
                nb = struct.unpack("<q", ctypes.string_at(p + rb.Members("reb_simulationarchive").m["nblobs"][0], 8))[0]
                L.reb_simulationarchive_free(p)
            else:
                nb = 0
            r = L.reb_simulation_create_from_file(ipath.encode(), -1)
            if r:
                L.reb_simulation_free(r)
        finally:
            os.dup2(saved[0], 1)
            os.dup2(saved[1], 2)
            for fd in saved + (devnull,):
                os.close(fd)
        if nb != n_expected:
            viol("open", "C entry point exposes a different number of snapshots than Python", "%s: C=%d python=%d" % (tag, nb, n_expected), point=tag)
        if bool(r) != (n_expected > 0):
            viol("open", "reb_simulation_create_from_file disagrees with the snapshot count", "%s: returned %s with %d snapshots" % (tag, "NULL" if not r else "sim", n_expected), point=tag)

    def restart(img, n, tag, depth, chain_budget):
        """restart from the last intact snapshot of img, complete the driver, compare with M*."""
        faults["crash_restart"][1] += 1
        open(rpath, "wb").write(img)
        rb.wlog_start()
        rb.alloc_fill((0x00, 0xFF, 0x5A, 0xCB)[(depth + len(img)) % 4])      # the restarted process finds other garbage in its fresh heap memory than the crashed one
        with rb.quiet() as q:
            s = rebound.Simulation(rpath)
            simgen.attach_callbacks(rebound, rb, s, cfg)
            run_driver(rebound, s, drv, rpath, n)
        rb.alloc_fill(0xCB)
        ev2 = rb.wlog_take()
        if any("attempt to fix" in m for m in q.messages):
            probe("repair_path_taken")
        n2, err2, w2, sa2 = exposed(rebound, rb, cfg, rpath)
        if n2 != nref:
            key = None
            try:
                st_from = struct.unpack("<i", MS[n - 1][11])[0] if (n - 1) < len(MS) else None
                if n2 == nref + 1 and st_from == -2 and drv["mode"] == "auto_step":
                    with rb.quiet():
                        a_, b_ = sa2[n2 - 2], sa2[n2 - 1]
                    if abs(a_.t - b_.t) <= 1e-12 * max(abs(a_.t), 1e-300) and int(b_.steps_done) == int(a_.steps_done) + 1:
                        # the known LAST_STEP defect in its step-cadence form: restarting from a snapshot taken in LAST_STEP re-enters integrate() in state RUNNING and
                        # takes one more step of ~1e-16 to land on the target; with a snapshot every step that step produces one more snapshot at the same time
                        key = "restart:extra-snapshot:restart-snapshot-taken-in-LAST_STEP"
            except Exception:
                key = None
            viol("restart", "restarted archive has wrong number of snapshots", "%s: expected %d got %d (%s) after restart from snapshot %d" % (tag, nref, n2, err2, n - 1), point=tag, **({"key": key} if key else {}))
            if not (key and ctx.known(key)):
                return
            return
        for k in range(nref):
            d = rb.S_diff(load_S(rebound, rb, cfg, sa2, k, drop=WALLTIME_FIELDS), MSnw[k])
            if d:
                key = "restart:snapshot-differs"
                if cfg["integrator"] in ("ias15", "mercurius", "trace") and drv["mode"] != "manual_steps":
                    # known mechanism? integrate() zeroes dt_last_done on entry (IAS15 then skips its predictor after a rejected first step).
                    # Counterfactual: the same restart with the persisted value put back must reproduce the uninterrupted archive.
                    cpath = rpath + ".cf"
                    open(cpath, "wb").write(img)
                    try:
                        with rb.quiet():
                            s3 = rebound.Simulation(cpath)
                            simgen.attach_callbacks(rebound, rb, s3, cfg)
                            run_driver(rebound, s3, drv, cpath, n, keep_dld=True)
                            sa3 = rebound.Simulationarchive(cpath)
                            if sa3.nblobs == nref and all(not rb.S_diff(load_S(rebound, rb, cfg, sa3, kk, drop=WALLTIME_FIELDS + (3,)), {a: b for a, b in MSnw[kk].items() if a != 3}) for kk in range(nref)):
                                key = "restart:dt_last_done-zeroed-on-integrate-entry"
                            del sa3
                    except (RuntimeError, rebound.Escape, rebound.NoParticles, rebound.Encounter, rebound.Collision):
                        pass
                    finally:
                        if os.path.exists(cpath):
                            os.unlink(cpath)
                st_from = struct.unpack("<i", MS[n - 1][11])[0]
                if key == "restart:snapshot-differs" and set(d) <= {0, 3, 11, 137, 145} and st_from == -2 and drv["mode"].startswith("auto"):
                    # (dt alone, or - when t+dt rounds to just below tmax on re-entry - one extra step of ~1e-17 with its bookkeeping: t, status, steps_done, dt_last_done)
                    # the snapshot restarted from was taken inside the artificially shortened last step
                    key = "restart:dt-only:restart-snapshot-taken-in-LAST_STEP"
                viol("restart", "snapshot of restarted archive differs from uninterrupted run",
                     "%s: restarted from snapshot %d, snapshot %d differs in fields %s" % (tag, n - 1, k, rb.describe_fields(d)), key=key, point=tag)
                return
        del sa2
        # multi-cycle: crash again inside one of the restarted run's writes
        if depth < 3 and chain_budget > 0:
            segs2 = segments_of(ev2)
            cands = [(j2, wi, off, data) for j2, s2 in enumerate(segs2) for wi, (off, data) in enumerate(s2["writes"]) if len(data)]
            if cands:
                j2, wi, off, data = cands[frng.below(len(cands))]
                k = frng.below(len(data))
                G = img
                for jj, s2 in enumerate(segs2):
                    for wj, (o2, d2) in enumerate(s2["writes"]):
                        if (jj, wj) == (j2, wi):
                            break
                        G = apply_write(G, o2, d2)
                    else:
                        continue
                    break
                G = apply_write(G, off, data, k)
                K2 = n + j2
                faults["crash_chain"][1] += 1
                probe("chain_depth%d" % (depth + 1))
                tag2 = tag + ">cycle%d[w%d.%d+%d]" % (depth + 1, j2, wi, k)
                m = check_image(G, K2, tag2)
                if m:
                    restart(G, m, tag2, depth + 1, chain_budget - 1)

    total = 0
    cut_short = False
    chains_left = case.get("chains", 0)
    chain_at = set()
    F = b""
    for j, s in enumerate(segs):
        if "w" in s["mode"]:
            F = b""
        for wi, (off, data) in enumerate(s["writes"]):
            ln = len(data)
            boundaries = {0, 1, 2, ln - 1, ln - 2} | ({64, 63, 65, ln - 12, ln - 13, ln - 11, ln - 28, ln - 29, ln - 27} if j == 0 else set())
            for k in range(ln):
                if only is not None and [j, wi, k] not in only:
                    continue
                if only is None and any(not ctx.known(v["key"]) for v in viols):
                    break
                if only is None and ctx.stop_at and total % 50 == 0 and time.time() > ctx.stop_at + 5:
                    cut_short = True
                    break
                total += 1
                ctx.op(total)
                img = apply_write(F, off, data, k)
                reg = region(j, wi, k, ln)
                tag = "snapshot%d/write%d/byte%d(%s)" % (j, wi, k, reg)
                if j > 0 and wi == 0 and 0 < k < ln:
                    probe("trailer_patch_torn")
                if img != complete[j] and img != complete[j + 1]:
                    sigs.append("%s|%d|%s" % (hist, j, reg))
                nexp = check_image(img, j, tag, total=total)
                if nexp is None:
                    continue
                if k in boundaries or total % 97 == 0:
                    c_entry_points(img, nexp, tag)
                # the restart clause presupposes an intact snapshot: with no completed write (j == 0) there is none,
                # even if the reader leniently exposes a content-complete snapshot 0 whose trailer is torn
                # (the writer explicitly refuses to append to such a file: "recovery attempt has failed").
                do_restart = nexp >= 1 and j >= 1 and not lagging and (only is not None or k in boundaries or frng.random() < case.get("restart_sample", 0.01))
                if do_restart:
                    faults["crash_restart"][0] += 1
                    chain = 0
                    if chains_left > 0 and frng.random() < 0.3:
                        chain = 2
                        chains_left -= 1
                    restart(img, nexp, tag, 0, chain)
                if total % 64 == 0:
                    a = rb.heap_audit()
                    if a:
                        viol("heap", "heap corruption while opening / restarting crash images", "%s: %s" % (tag, a), point=tag)
            F = apply_write(F, off, data)
    faults["crash_image_open"][0] = total
    a = rb.heap_audit()
    if a:
        viol("heap", "heap corruption while opening / restarting crash images", a)
    sig = sorted(set(sigs))
    return dict(viols=viols, sig=sig, probes=probes, faults=faults,
                sim={"steps": int(steps_ref), "snapshots": nref, "crash_images": total, "archive_bytes": len(complete[-1])},
                exhaustive=(only is None and not viols and not cut_short))


def shrink(case, still_fails, viol=None):
    """restrict to the failing crash point, then simplify history and configuration"""
    import re
    c = dict(case)
    if viol and viol.get("point"):
        m = re.match(r"snapshot(\d+)/write(\d+)/byte(\d+)", viol["point"])
        if m:
            c2 = dict(c)
            c2["only_points"] = [[int(m.group(1)), int(m.group(2)), int(m.group(3))]]
            c2["chains"] = 0 if ">cycle" not in viol["point"] else c["chains"]
            if still_fails(c2):
                c = c2
    # fewer snapshots / smaller chunk
    for key, lo in (("nsnap", 1), ("chunk", 1)):
        while c["driver"][key] > lo:
            c2 = dict(c)
            c2["driver"] = dict(c["driver"])
            c2["driver"][key] -= 1
            if c.get("only_points") and key == "nsnap" and c["only_points"][0][0] >= c2["driver"]["nsnap"]:
                break
            if still_fails(c2):
                c = c2
            else:
                break
    # default options
    for opt in sorted(c["config"].get("opts", {})):
        c2 = dict(c)
        c2["config"] = dict(c["config"])
        c2["config"]["opts"] = {k: v for k, v in c["config"]["opts"].items() if k != opt}
        if still_fails(c2):
            c = c2
    for k in ("var", "megno", "force", "units", "N_active", "softening", "track_energy_offset", "exit_max_distance"):
        if k in c["config"]:
            c2 = dict(c)
            c2["config"] = {kk: vv for kk, vv in c["config"].items() if kk != k}
            if still_fails(c2):
                c = c2
    if c.get("clock_step"):
        c2 = dict(c)
        c2["clock_step"] = 0
        if still_fails(c2):
            c = c2
    return c


def evidence_extra(results):
    ex = sum(1 for r in results if r.get("exhaustive"))
    return {"histories_exhaustive_on_open": ex, "exhaustive": False,
            "exhaustive_note": "every byte prefix of every write is opened within each history (histories_exhaustive_on_open); histories themselves are sampled"}
