"""C05 — a saved simulation restores bit-for-bit and continues bit-for-bit.

One run = a configuration from the full option lattice plus an op history with save points.
At every save point the state is moved through a transport (file, bytes, pickle, copy, appended
archive snapshot) into a fresh object R built from the bytes only; R then *follows* the
original O through all remaining ops and is compared with it after each one.
"""
import os
import pickle
import struct

from .. import simgen, ops as OPS

ID = "C05"
TITLE = "A saved simulation restores bit-for-bit and continues bit-for-bit"
LEVEL = "exploration"
VARIANT = "io"
BUDGET = {"quick": 35, "thorough": 900}
RUN_CAP_S = 15.0
RULE = ("one run = configuration drawn from the option lattice (11 integrators x their options, gravity/collision/boundary modules, test particles, variational "
        "particles/MEGNO, box+tree set-ups) + a seeded history of steps/integrate/add/remove/sync/setting edits with 1-4 save points, each through one of the "
        "transports file / bytes / pickle / copy / appended archive snapshot / automatic snapshot inside integrate. Non-trivial = at least one save point taken "
        "after >=1 step with >=1 step of continuation compared; distinct = distinct (integrator, option vector, transport, unsynchronised?, op-kind sequence) digests.")
COMPONENTS = {"real": ["serialiser / deserialiser / descriptor table (output.c, input.c)", "archive append + delta path", "copy", "pickle support in the Python layer",
                       "all integrators and modules for the continuation"],
              "simulated": ["restart (fresh object from bytes only, same worker process)", "wall clock with jumps between save and load", "heap (garbage fill exposes fields the reader forgets)"]}
ASSUMPTIONS = ["callbacks are re-attached after every restore (the property's proviso)",
               "struct view X compares every scalar member of struct reb_simulation taken from DWARF except the transient members listed in c05.TRANSIENT",
               "save points inside integrate(): only the trajectory at the end of that integrate call is compared (caller-side loop state is not part of any snapshot)"]
PROBES = ["live_arrays_compared", "saved_unsynchronized", "saved_after_merge", "saved_with_variational", "saved_in_encounter", "transport_file", "transport_bytes", "transport_pickle", "transport_archive_index",
          "transport_copy", "transport_archive_delta", "transport_auto_snapshot", "continued_steps"]

# members of struct reb_simulation that are scratch / bookkeeping recomputed by the library and legitimately
# differ between an original and its restored copy (calibrated on the unchanged tree, see DESIGN.md section 5 C05)
TRANSIENT_EXACT = {
    "N_allocated", "N_lookup", "N_allocated_lookup", "hash_ctr_unused", "tree_needs_update", "status_unused", "output_timing_last_unused",
    "save_messages", "N_allocated_gravity_cs", "N_allocated_collisions", "N_odes", "N_allocated_odes", "ode_warnings", "var_rescale_warning",
    "ri_bs.dt_proposed", "ri_bs.user_ode_needs_nbody", "ri_whfast.N_allocated_tmp", "ri_whfast.recalculate_coordinates_but_not_synchronized_warning",
    "ri_whfast512.recalculate_constants", "ri_ias15.N_allocated_map", "ri_mercurius.mode", "ri_mercurius.tponly_encounter", "ri_mercurius.N_allocated",
    "ri_mercurius.N_allocated_additional_forces", "ri_mercurius.encounter_N", "ri_mercurius.encounter_N_active",
    "ri_trace.mode", "ri_trace.tponly_encounter", "ri_trace.N_allocated", "ri_trace.N_allocated_additional_forces", "ri_trace.encounter_N",
    "ri_trace.encounter_N_active", "ri_trace.current_C", "ri_trace.force_accept", "ri_trace.com_pos.x", "ri_trace.com_pos.y", "ri_trace.com_pos.z",
    "ri_trace.com_vel.x", "ri_trace.com_vel.y", "ri_trace.com_vel.z", "collisions_N", "N_tree_fixed", "simulationarchive_filename",
}
TRANSIENT_PREFIX = ("walltime", "display_", "server_", "mpi_", "N_allocated")


def transient(path):
    return path in TRANSIENT_EXACT or path.startswith(TRANSIENT_PREFIX) or ".N_allocated" in path


SETS = [("softening", [0.0, 1e-3]), ("exit_max_distance", [0.0, 500.0]), ("testparticle_type", [0, 1]), ("track_energy_offset", [0, 1]),
        ("collision_resolve_keep_sorted", [0, 1]), ("rand_seed", [1, 77]), ("opening_angle2", [0.25, 0.5]), ("python_unit_l", [0, 7]),
        ("exact_finish_time", [0, 1]), ("minimum_collision_velocity", [0.0, 1e-4]), ("exit_min_distance", [0.0, 1e-6])]
TRANSPORTS = ["file", "bytes", "pickle", "copy", "archive", "archive", "archive_index"]


def generate(rng, tier, index):
    c = rng.derive("cfg")
    if rng.derive("compact").chance(0.05):
        cfg = simgen.gen_compact_config(c)
        cfg["alloc"] = c.choice([1, 2, 3])
        o = rng.derive("ops")
        ops = [dict(op="steps", n=o.randint(100, 400)), dict(op="save", via=o.choice(TRANSPORTS)), dict(op="steps", n=o.randint(150, 350)), dict(op="save", via=o.choice(TRANSPORTS)),
               dict(op="steps", n=o.randint(150, 350))]
        return dict(config=cfg, ops=ops, clock_step=0, fill0=rng.derive("fill").randint(0, 3))
    if c.chance(0.2):
        cfg = simgen.gen_box_config(c, nmax=40 if tier == "quick" else 140, allow_shear=True)
    else:
        integ = simgen.INTEGRATORS_ALL[index % 11] if index < 33 else c.choice(simgen.INTEGRATORS_ALL)
        cfg = simgen.gen_planetary_config(c, integrators=[integ], nmin=2, nmax=7 if tier == "quick" else 12)
    cfg["alloc"] = c.choice([1, 2, 3])
    o = rng.derive("ops")
    nops = o.randint(3, 10 if tier == "quick" else 14)
    ops = []
    pm = rng.derive("plant-merge")
    if cfg.get("box") and cfg.get("collision", "none") != "none" and cfg.get("collision_resolve") == "merge" and pm.chance(0.5):
        # a merger in the very step before a save: with a tree the victim is only flagged at that point (removal deferred to the next tree update)
        q = cfg["particles"][pm.randint(0, len(cfg["particles"]) - 1)]
        sz = cfg["box"]["size"]
        rr = max(q["r"], 1e-3 * sz)
        q["r"] = rr
        cfg["particles"].append(dict(m=q["m"] * 0.5, x=q["x"] + 0.7 * rr * (1 if q["x"] < 0 else -1), y=q["y"], z=q["z"], vx=q["vx"] - 0.05 * sz * (1 if q["x"] < 0 else -1), vy=q["vy"], vz=q["vz"],
                                     r=0.5 * rr, hash=2999))
        ops += [dict(op="steps", n=1), dict(op="save", via=pm.choice(TRANSPORTS))]
    pv = rng.derive("plant-vanish")
    if not cfg.get("box") and pv.chance(0.06):
        # an integrator array exists in the first archive snapshot and has vanished by the second: the delta then carries a zero-sized field
        ops += [dict(op="steps", n=pv.randint(1, 6)), dict(op="save", via="archive"), dict(op="reset_integrator")]
        if pv.chance(0.6):
            ni = pv.choice([x for x in simgen.INTEGRATORS_ALL if x != "sei"])
            ops.append(dict(op="switch", integrator=ni, opts=simgen.integrator_opts(pv, ni)))
        ops.append(dict(op="save", via=pv.choice(["archive", "archive_index"])))
    nh = [3000]
    nsave = sum(1 for x in ops if x["op"] == "save")
    for i in range(nops):
        k = o.weighted([("steps", 30), ("integrate", 10), ("save", 22 if nsave < 4 else 0), ("add", 5), ("remove", 5), ("sync", 5), ("set", 5), ("move", 4),
                        ("clock_jump", 4), ("energy", 3), ("grow_radius", 4 if (cfg.get("box") and cfg.get("collision", "none") != "none") else 0), ("set_lrescale", 4 if (cfg.get("var") or cfg.get("megno")) else 0), ("auto", 4 if nsave < 4 else 0), ("switch", 3 if not cfg.get("box") else 0), ("reset_integrator", 2 if not cfg.get("box") else 0)])
        if k == "steps":
            ops.append(dict(op="steps", n=o.randint(1, 25)))
        elif k == "integrate":
            ops.append(dict(op="integrate", span=abs(cfg["dt"]) * o.choice([0.5, 1.0, 3.3, 7.0, 12.5]), exact=o.choice([None, None, 0, 1])))
        elif k == "save":
            nsave += 1
            ops.append(dict(op="save", via=o.choice(TRANSPORTS)))
        elif k == "auto":
            nsave += 1
            ops.append(dict(op="auto", step=o.randint(1, 4), pick=o.randint(0, 50), span=abs(cfg["dt"]) * o.choice([3.3, 7.0, 12.5]), exact=o.choice([0, 1])))
        elif k == "add":
            nh[0] += 1
            ops.append(dict(op="add", p=OPS.random_particle(o, r=0.0, hash_=nh[0])))
        elif k == "remove":
            ops.append(dict(op="remove", pick=o.randint(0, 200), keep_sorted=1))
        elif k == "set":
            path, vals = o.choice(SETS)
            ops.append(dict(op="set", path=path, value=o.choice(vals)))
        elif k == "switch":
            ni = o.choice([x for x in simgen.INTEGRATORS_ALL if x != "sei"])
            ops.append(dict(op="switch", integrator=ni, opts=simgen.integrator_opts(o, ni)))
        elif k == "reset_integrator":
            ops.append(dict(op="reset_integrator"))
        elif k == "move":
            ops.append(dict(op="move", pick=o.randint(0, 50), dx=o.uniform(-1e-3, 1e-3), dvy=o.uniform(-1e-3, 1e-3), fm=o.choice([1.0, 1.5])))
        elif k == "set_lrescale":
            ops.append(dict(op="set_lrescale", pick=o.randint(0, 5), value=o.choice([-1.0, 12.5, 230.25])))
        elif k == "grow_radius":
            # a radius assigned after the particle was added (the cached two largest radii of the tree searches go stale until the next re-insertion)
            ops.append(dict(op="grow_radius", pick=o.randint(0, 200), factor=o.choice([1.5, 3.0])))
        elif k == "clock_jump":
            ops.append(dict(op="clock_jump", us=o.choice([3600 * 10**6, -3600 * 10**6, 10**12, -10**9])))
        else:
            ops.append(dict(op=k))
    if nsave == 0:
        ops.insert(o.randint(0, len(ops)), dict(op="save", via=o.choice(TRANSPORTS)))
    ops.append(dict(op="steps", n=o.randint(1, 10)))
    return dict(config=cfg, ops=ops, clock_step=rng.derive("clk").choice([0, 1, 1000, 10**6]), fill0=rng.derive("fill").randint(0, 3))


def is_box(cfg):
    return bool(cfg.get("box"))


def execute(case, ctx):
    import rebound
    from .. import rb
    from ..engine import digest_of
    cfg = dict(case["config"])
    viols, probes, sigs = [], {}, []
    nsteps = [0]

    def probe(k, n=1):
        probes[k] = probes.get(k, 0) + n

    def viol(oracle, clause, detail, key=None):
        viols.append(dict(oracle=oracle, clause=clause, detail=detail, key=key or ("%s:%s" % (oracle, clause))))

    rb.alloc_level(cfg.get("alloc", 2))
    rb.clock_set(step_us=case.get("clock_step", 0))
    apath = os.path.join(ctx.tmpdir, "c05-archive.bin")
    fpath = os.path.join(ctx.tmpdir, "c05-file.bin")
    upath = os.path.join(ctx.tmpdir, "c05-auto.bin")
    for p in (apath, fpath, upath):
        if os.path.exists(p):
            os.unlink(p)
    O = simgen.build(rebound, rb, cfg)
    box = is_box(cfg)
    followers = []   # (label, sim, cfg copy)
    FILLS = (0xCB, 0x00, 0xFF, 0x5A)
    fill0 = case.get("fill0", 0)
    kinds = []
    WT = (126, 127)

    def unsynced(s):
        i = s.integrator
        try:
            if i == "whfast":
                return not s.ri_whfast.is_synchronized
            if i == "saba":
                return not s.ri_saba.is_synchronized
            if i == "mercurius":
                return not s.ri_mercurius.is_synchronized
            if i == "eos":
                return not s.ri_eos.is_synchronized
        except Exception:
            pass
        return False

    uses_tree = cfg.get("gravity") == "tree" or cfg.get("collision") in ("tree", "linetree")

    def xview_diff(a, b):
        out = []
        for path in rb.SIM.order:
            off, size, kind, decl = rb.SIM.m[path]
            if kind in ("ptr", "fptr") or transient(path):
                continue
            if uses_tree and path == "N":
                continue        # flagged particles are dropped by the restore (compared through the particle multiset)
            if rb.rawf(a, path) != rb.rawf(b, path):
                out.append(path)
        return out

    def restore(via, label):
        """returns R or None (violation recorded)"""
        probe("transport_" + ("archive_delta" if via == "archive" else via))
        with rb.quiet() as q:
            if via == "file":
                if os.path.exists(fpath):
                    os.unlink(fpath)
                O.save_to_file(fpath)
                R = rebound.Simulation(fpath)
            elif via == "bytes":
                R = rebound.Simulation(rb.save_bytes(O))
            elif via == "pickle":
                R = pickle.loads(pickle.dumps(O))
            elif via == "copy":
                R = O.copy()
            elif via == "archive":
                O.save_to_file(apath)
                R = rebound.Simulation(apath)
            elif via == "archive_index":
                O.save_to_file(apath)
                sa_ = rebound.Simulationarchive(apath)
                R = sa_[-1]             # through the Python wrapper's __getitem__
                del sa_
            else:
                raise ValueError(via)
            simgen.attach_callbacks(rebound, rb, R, cfg)
        return R

    def check_restored(R, label, drop=()):
        sO, sR = rb.S(O, drop=drop), rb.S(R, drop=drop)
        if uses_tree:
            # a particle flagged for deferred removal (merge in the last step) is dropped by the restore; order is unspecified with a tree
            sO, sR = rb.canon_particle_order(rb.drop_flagged(sO)), rb.canon_particle_order(rb.drop_flagged(sR))
        d = rb.S_diff(sO, sR)
        if d:
            viol("restore", "persisted content differs after restore", "%s: fields %s" % (label, rb.describe_fields(d)), key="restore:S:" + ",".join(str(x) for x in d[:3]))
            return False
        aO, aR = rb.A(O, drop=drop), rb.A(R, drop=drop)
        if uses_tree:
            aO.pop(rb.F_PARTICLES, None); aR.pop(rb.F_PARTICLES, None)      # (flagged particles, order: compared through the S view above)
        da = rb.S_diff(aO, aR)
        if da:
            viol("restore", "array content differs in memory after restore although the serialised content agrees", "%s: fields %s" % (label, rb.describe_fields(da)),
                 key="restore:A:" + ",".join(str(x) for x in da[:3]))
            return False
        probe("live_arrays_compared", len(aO))
        x = xview_diff(O, R)
        if x:
            viol("restore", "setting lost on restore (struct member differs)", "%s: members %s (original %r, restored %r)" % (label, x[:6], rb.getf(O, x[0]), rb.getf(R, x[0])), key="restore:X:" + x[0])
            if not ctx.known("restore:X:" + x[0]):
                return False
        return True

    extra_drop = []

    def compare_follow(label, R, what):
        dr = WT + tuple(extra_drop)
        if uses_tree and cfg.get("collision", "none") != "none":
            return True     # tree + collisions: which particles the next tree update re-inserts differs between O (stale tree) and R
                            # (rebuilt tree), and with it the order in which simultaneous collisions are resolved; not compared
        if uses_tree:
            dr = dr + (396, 397)    # max_radius0/1 are updated by every re-insertion
        sO, sR = rb.S(O, drop=dr), rb.S(R, drop=dr)
        if uses_tree:
            # the original's tree is one drift behind at the save point, the restored tree is rebuilt from the current positions:
            # the next tree update re-inserts (and thereby re-orders) different particles. Order is documented as unspecified with a tree.
            sO, sR = rb.canon_particle_order(sO), rb.canon_particle_order(sR)
        d = rb.S_diff(sO, sR)
        if d:
            viol("continue", "restored simulation diverges from the original", "%s after %s: fields %s" % (label, what, rb.describe_fields(d)),
                 key="continue:" + ",".join(str(x) for x in d[:2]))
            return False
        if uses_tree and T_raw(O) != T_raw(R):
            viol("continue", "restored simulation orders its particles differently from the original (tree)", "%s after %s" % (label, what), key="continue:tree-particle-order")
        return True

    def T_raw(s):
        return rb.T(s)[2]

    def T_cmp(a, b):
        """trajectory equality; with a tree the particle order is unspecified"""
        ta, tb = rb.T(a), rb.T(b)
        if not uses_tree:
            return ta == tb
        srt = lambda raw: sorted(raw[i:i + rb.PART.size] for i in range(0, len(raw), rb.PART.size))
        return ta[0] == tb[0] and ta[1] == tb[1] and srt(ta[2]) == srt(tb[2])

    def apply_all(op):
        """apply op to O and all followers; False if something raised in one but not the other"""
        res = []
        for ai, (lab, s, c) in enumerate([("O", O, cfg)] + followers):
            rb.alloc_fill(FILLS[(ai + fill0) % len(FILLS)] if ai else 0xCB)     # every restored simulation works on a heap with other garbage in it
            try:
                with rb.quiet():
                    r = OPS.apply(rebound, rb, s, c, op)
                res.append(("ok", r))
            except (rebound.Escape, rebound.NoParticles, rebound.Encounter, rebound.Collision, rebound.GenericError, RuntimeError, AttributeError, ValueError) as e:
                res.append(("raised", type(e).__name__))
        rb.alloc_fill(0xCB)
        if any(r != res[0] for r in res[1:]):
            viol("continue", "operation outcome differs between original and restored simulation", "%s: %s" % (op["op"], res), key="continue:outcome")
            return False
        if res[0][0] == "raised":
            probe("history_ended_by_library_error")
            return False        # the library reported an error (e.g. particle left the box): the history ends here, nothing further is compared
        return True

    for i, op in enumerate(case["ops"]):
        ctx.op(i)
        k = op["op"]
        kinds.append(k)
        n_before = O.N
        sd0 = O.steps_done
        if k == "save":
            if O.N == 0:
                continue
            via = op["via"]
            label = "save#%d via %s (integrator %s, steps_done %d)" % (i, via, O.integrator, O.steps_done)
            if unsynced(O):
                probe("saved_unsynchronized")
            if O.N_var:
                probe("saved_with_variational")
            rb.alloc_fill(FILLS[(len(followers) + 1 + fill0) % len(FILLS)])
            R = restore(via, label)
            rb.alloc_fill(0xCB)
            if not check_restored(R, label):
                break
            if len(followers) < 3:
                followers.append((label, R, dict(cfg)))
            if O.steps_done > 0:
                sigs.append(digest_of([cfg["integrator"], sorted(cfg.get("opts", {}).items()), via, unsynced(O), kinds]))
        elif k == "auto":
            # save point inside integrate(): automatic snapshots by step; restart from one of them and finish the same integrate call
            if O.N - O.N_var < 1 or O.N_active == 0:
                continue
            if os.path.exists(upath):
                os.unlink(upath)
            probe("transport_auto_snapshot")
            if not extra_drop:
                extra_drop.extend([47, 48, 102, 135, 136])      # archive cadence bookkeeping only O carries from now on
            sgn = 1.0 if O.dt > 0 else -1.0
            tgt = O.t + sgn * op["span"]
            raised = None
            try:
                with rb.quiet():
                    O.simulationarchive_auto_step = 0       # (re-)arm: a changed step value resets the cadence to "now"
                    O.save_to_file(upath, step=op["step"])
                    O.integrate(tgt, exact_finish_time=op["exact"])
            except (rebound.Escape, rebound.NoParticles, rebound.Encounter, rebound.Collision, rebound.GenericError, RuntimeError) as e:
                raised = type(e).__name__
            if raised is not None:
                probe("history_ended_by_library_error")
                break
            # followers do the same integrate (without snapshots)
            for lab, s, c in followers:
                r2 = None
                try:
                    with rb.quiet():
                        s.integrate(tgt, exact_finish_time=op["exact"])
                except (rebound.Escape, rebound.NoParticles, rebound.Encounter, rebound.Collision, rebound.GenericError, RuntimeError) as e:
                    r2 = type(e).__name__
                if r2 != raised:
                    viol("continue", "operation outcome differs between original and restored simulation", "auto-integrate: %s vs %s" % (raised, r2), key="continue:outcome")
            # the archive is detached again (filename is not persisted anyway)
            with rb.quiet():
                try:
                    sa = rebound.Simulationarchive(upath)
                    nb = sa.nblobs
                except RuntimeError:
                    nb = 0
            inside = []
            if nb and raised is None:
                with rb.quiet():
                    for jj in range(nb):
                        if sa[jj]._status < 0:      # taken inside the loop (RUNNING / LAST_STEP), not the final state
                            inside.append(jj)
            if inside and raised is None:
                j = inside[op["pick"] % len(inside)]
                with rb.quiet():
                    Rj = sa[j]
                    simgen.attach_callbacks(rebound, rb, Rj, cfg)
                    try:
                        Rj.integrate(tgt, exact_finish_time=op["exact"])
                        rj = None
                    except (rebound.Escape, rebound.NoParticles, rebound.Encounter, rebound.Collision, rebound.GenericError, RuntimeError) as e:
                        rj = type(e).__name__
                if rj is None and not (uses_tree and cfg.get("collision", "none") != "none") and not T_cmp(Rj, O):
                    key = "auto:T"
                    if cfg["integrator"] in ("ias15", "mercurius", "trace"):
                        # is it the known mechanism? integrate() zeroes dt_last_done on entry and IAS15 then skips its predictor
                        # after a rejected first step. Counterfactual: same restart with the persisted value put back.
                        with rb.quiet():
                            Rk = sa[j]
                            simgen.attach_callbacks(rebound, rb, Rk, cfg)
                            try:
                                rb.integrate_keeping_dt_last_done(Rk, tgt, op["exact"])
                                if T_cmp(Rk, O):
                                    key = "auto:T:dt_last_done-zeroed-on-integrate-entry"
                            except (rebound.Escape, rebound.NoParticles, rebound.Encounter, rebound.Collision, rebound.GenericError, RuntimeError):
                                pass
                    if key == "auto:T" and op["exact"] == 1 and sa[j]._status == -2 and abs(int(Rj.steps_done) - int(O.steps_done)) <= 1 \
                            and abs(Rj.t - O.t) <= 1e-12 * abs(tgt) and abs(Rj.t - tgt) <= 1e-12 * abs(tgt) and abs(O.t - tgt) <= 1e-12 * abs(tgt):
                        # same mechanism as the C07 finding: the snapshot was taken at the boundary where integrate() had already shortened dt for
                        # its last step and persisted status LAST_STEP; the restart re-enters integrate() in state RUNNING, so one of the two runs
                        # accepts t within 1e-12 of the target while the other takes one more step of ~1e-16 to land on it exactly
                        pa, pb = rb.particles_raw(Rj), rb.particles_raw(O)
                        close = len(pa) == len(pb)
                        if close:
                            import struct as _st
                            for q in range(0, len(pa), rb.PART.size):
                                va, vb = _st.unpack_from("<6d", pa, q), _st.unpack_from("<6d", pb, q)
                                if any(abs(x - y) > 1e-12 * (abs(x) + abs(y) + 1e-300) for x, y in zip(va, vb)):
                                    close = False
                                    break
                        if close:
                            key = "auto:T:restart-snapshot-taken-in-LAST_STEP"
                    viol("continue", "restart from a snapshot taken inside integrate() ends on a different trajectory",
                         "auto#%d: snapshot %d of %d (integrator %s), target %r: t %r vs %r" % (i, j, nb, cfg["integrator"], tgt, Rj.t, O.t), key=key)
                    if not ctx.known(key):
                        break
                if O.steps_done > sd0:
                    sigs.append(digest_of([cfg["integrator"], sorted(cfg.get("opts", {}).items()), "auto", j, kinds]))
            # stop taking automatic snapshots for the rest of the history
            O.simulationarchive_auto_step = 0
            rb.setf_ptr(O, "simulationarchive_filename", 0) if False else None
        else:
            if k in ("add", "remove") and box:
                continue
            if not apply_all(op):
                break
        if O.N < n_before and k in ("steps", "integrate", "auto"):
            probe("saved_after_merge") if any(o2["op"] == "save" for o2 in case["ops"][i + 1:i + 2]) else None
        nsteps[0] = int(O.steps_done)
        if k not in ("save",):
            ok = True
            for lab, s, c in followers:
                if k == "auto":
                    # O carries archive cadence fields the followers do not: compare trajectories and integrator state without them
                    dr2 = WT + (47, 48, 102, 135, 136) + ((396, 397) if uses_tree else ())
                    sO, sR = rb.S(O, drop=dr2), rb.S(s, drop=dr2)
                    if uses_tree:
                        sO, sR = rb.canon_particle_order(sO), rb.canon_particle_order(sR)
                    d = rb.S_diff(sO, sR) if not (uses_tree and cfg.get("collision", "none") != "none") else []
                    if d:
                        viol("continue", "restored simulation diverges from the original", "%s after auto-integrate: fields %s" % (lab, rb.describe_fields(d)), key="continue:" + ",".join(str(x) for x in d[:2]))
                        ok = False
                        break
                elif not compare_follow(lab, s, "op %d (%s)" % (i, k)):
                    ok = False
                    break
            if not ok:
                break
            if followers and k in ("steps", "integrate", "auto") and O.steps_done > sd0:
                probe("continued_steps", int(O.steps_done - sd0))
        a = rb.heap_audit()
        if a:
            viol("heap", "heap corruption", "after op %d (%s): %s" % (i, k, a))
            break
    return dict(viols=viols, sig=sorted(set(sigs)) if not any(not ctx.known(v["key"]) for v in viols) else None, probes=probes,
                sim={"steps": nsteps[0], "save_points": len([1 for x in kinds if x in ("save", "auto")])})
