"""Toolkit on top of the verification build of rebound: serialisation views, layout access,
seam control.  Import only after build.activate()."""
import ctypes
import json
import os
import struct
import warnings
from ctypes import byref, c_char_p, c_size_t, c_int, c_int64, c_uint64, c_void_p, string_at, POINTER, c_ubyte, c_char

import rebound
from rebound import clibrebound as L

from . import layout as _layout

# a second handle on the same loaded library: private ctypes function objects whose restype/argtypes
# the Python layer never overwrites
L2 = ctypes.CDLL(rebound.__libpath__)
BUILDDIR = os.path.dirname(os.path.dirname(os.path.abspath(rebound.__file__)))
LAYOUT = _layout.load(BUILDDIR)

FIELD_HDR = 16
BLOB = 12
END = 9999
HEADER_LEN = 64
F_PARTICLES = 85
F_VARCONFIG = 86
F_FUNCPTR = 87
F_PJH = 104
F_WALLTIME = (126, 127)          # walltime, walltime_last_steps
F_PJH0_512 = 399

# ---- seam control -------------------------------------------------------------------------------
L.verif_clock_set.argtypes = [c_int64, c_int64]
L.verif_clock_jump.argtypes = [c_int64]
L.verif_clock_get.restype = c_int64
L.verif_clock_calls.restype = c_uint64
L.verif_heap_error.restype = c_char_p
L.verif_heap_block_size.restype = c_int64
L.verif_heap_block_size.argtypes = [c_void_p]


def clock_set(us=1700000000 * 10**6, step_us=0):
    L.verif_clock_set(us, step_us)


def clock_jump(us):
    L.verif_clock_jump(us)


def alloc_level(level):
    L.verif_alloc_level(int(level))
    L.verif_alloc_fill(0xCB)        # every run starts from the default garbage pattern


def alloc_fill(byte=0xCB):
    """content of fresh (non-calloc) heap memory handed to librebound from now on: code whose result depends on it reads uninitialised memory"""
    L.verif_alloc_fill(int(byte))


def heap_audit():
    """None if clean, else the first problem as text (and clears it)."""
    n = L.verif_heap_audit()
    if n:
        msg = L.verif_heap_error().decode("ascii", "replace")
        L.verif_heap_clear_error()
        return "%s (%d problems)" % (msg, n)
    return None


def heap_stats():
    a = (c_uint64 * 8)()
    L.verif_heap_stats(a)
    return dict(zip(("malloc", "free", "realloc", "moved", "foreign", "live", "quarantine_bytes"), list(a)))


FOPEN_CB = ctypes.CFUNCTYPE(None, c_char_p, c_char_p)
_keep = []


def set_fopen_observer(fn):
    if fn is None:
        L.verif_set_fopen_observer(None)
        return
    cb = FOPEN_CB(fn)
    _keep.append(cb)
    L.verif_set_fopen_observer(cb)


def wlog_start():
    L.verif_wlog_reset()
    L.verif_wlog_enable(1)


def wlog_take():
    """-> list of events ("open", stream, mode) / ("write", stream, off, bytes) / ("close", stream)"""
    n = L.verif_wlog_count()
    out = []
    kind, stream, off, ln = c_int(), c_int(), c_int64(), c_int64()
    data = POINTER(c_ubyte)()
    mode = ctypes.create_string_buffer(8)
    for i in range(n):
        L.verif_wlog_get(i, byref(kind), byref(stream), byref(off), byref(ln), byref(data), mode)
        if kind.value == 1:
            out.append(("open", stream.value, mode.value.decode()))
        elif kind.value == 2:
            out.append(("write", stream.value, off.value, string_at(data, ln.value)))
        else:
            out.append(("close", stream.value))
    L.verif_wlog_reset()
    L.verif_wlog_enable(0)
    return out


# ---- layout access -------------------------------------------------------------------------------
class Members:
    def __init__(self, name):
        self.size = LAYOUT[name]["size"]
        self.m = {}
        self.order = []
        for path, off, size, kind, decl in LAYOUT[name]["members"]:
            self.m[path] = (off, size, kind, decl)
            self.order.append(path)

    def fmt(self, path):
        off, size, kind, decl = self.m[path]
        d = decl.strip()
        if kind != "scalar":
            return None
        if d.startswith("double"):
            return "<d"
        if d.startswith("float"):
            return "<f"
        uns = d.startswith(("unsigned", "uint", "size_t"))
        return {1: "<B" if uns else "<b", 2: "<H" if uns else "<h", 4: "<I" if uns else "<i", 8: "<Q" if uns else "<q"}[size]


SIM = Members("reb_simulation")
PART = Members("reb_particle")
VC = Members("reb_variational_configuration")
def _padding(mem):
    cov = sorted((o, s) for (o, s, k, d) in mem.m.values())
    out, pos = [], 0
    for o, s in cov:
        if o > pos:
            out.append((pos, o - pos))
        pos = max(pos, o + s)
    if pos < mem.size:
        out.append((pos, mem.size - pos))
    return out


# pointer members and struct padding (padding holds whatever was on the caller's stack) are not state
PART_PTR_RANGES = [(o, s) for (o, s, k, d) in PART.m.values() if k in ("ptr", "fptr")] + _padding(PART)
VC_PTR_RANGES = [(o, s) for (o, s, k, d) in VC.m.values() if k in ("ptr", "fptr")] + _padding(VC)


def addr(sim):
    return ctypes.addressof(sim)


def getf(sim, path):
    off, size, kind, decl = SIM.m[path]
    raw = string_at(addr(sim) + off, size)
    f = SIM.fmt(path)
    if f is None:
        return raw
    return struct.unpack(f, raw)[0]


def setf(sim, path, value):
    off, size, kind, decl = SIM.m[path]
    f = SIM.fmt(path)
    ctypes.memmove(addr(sim) + off, struct.pack(f, value), size)


def rawf(sim, path):
    off, size, kind, decl = SIM.m[path]
    return string_at(addr(sim) + off, size)


# ---- serialisation views ---------------------------------------------------------------------------
def save_bytes(sim):
    buf = c_char_p()
    size = c_size_t()
    L.reb_simulation_save_to_stream(byref(sim), byref(buf), byref(size))
    s = bytes(string_at(buf, size=size.value))
    L.reb_simulation_output_free_stream(buf)
    return s


def parse_stream(b, start=0, first=True):
    """Parse one blob starting at 'start'. Returns (header|None, [(type, payload)], pos_after_END, ok)"""
    pos = start
    header = None
    if first:
        header = b[pos:pos + HEADER_LEN]
        pos += HEADER_LEN
    fields = []
    n = len(b)
    while True:
        if pos + FIELD_HDR > n:
            return header, fields, pos, False
        typ, = struct.unpack_from("<I", b, pos)
        size, = struct.unpack_from("<Q", b, pos + 8)
        pos += FIELD_HDR
        if typ == END:
            return header, fields, pos, True
        if pos + size > n:
            return header, fields, pos, False
        fields.append((typ, b[pos:pos + size]))
        pos += size


def _mask_ranges(payload, elem, ranges):
    ba = bytearray(payload)
    n = len(ba) // elem
    for i in range(n):
        for o, s in ranges:
            ba[i * elem + o:i * elem + o + s] = b"\0" * s
    return bytes(ba)


PARTICLE_FIELDS = (F_PARTICLES, F_PJH, F_PJH0_512)


def mask_field(typ, payload):
    if typ in PARTICLE_FIELDS:
        return _mask_ranges(payload, PART.size, PART_PTR_RANGES)
    if typ == F_VARCONFIG:
        return _mask_ranges(payload, VC.size, VC_PTR_RANGES)
    return payload


_DT_PTR = {9: "ptr", 10: "ptr", 16: "fixed", 11: "dp7"}
_ptr_descs = None


class _D(object):
    __slots__ = ("type", "dtype", "offset", "offset_N", "element_size")

    def __init__(self, *a):
        self.type, self.dtype, self.offset, self.offset_N, self.element_size = a


def A(sim, drop=()):
    """field-id -> bytes of the LIVE arrays behind every pointer-typed persisted field (read from the simulation's own memory,
    not through the serialiser), pointer members and padding masked.  A restored / copied / loaded simulation must agree with its
    source in this view as well: the S view alone cannot see a writer that silently drops part of an array element."""
    global _ptr_descs
    if _ptr_descs is None:
        from rebound.binary_field_descriptor import binary_field_descriptor_list
        _ptr_descs = [_D(d.type, d.dtype, d.offset, d.offset_N, d.element_size) for d in binary_field_descriptor_list() if d.dtype in _DT_PTR]
    base = ctypes.addressof(sim)
    out = {}
    for d in _ptr_descs:
        kind = _DT_PTR[d.dtype]
        if d.type in drop:
            continue
        if kind == "fixed":
            ptr = struct.unpack("<Q", ctypes.string_at(base + d.offset, 8))[0]
            raw = ctypes.string_at(ptr, d.element_size) if ptr else b""
        elif kind == "dp7":
            n = struct.unpack("<I", ctypes.string_at(base + d.offset_N, 4))[0]
            parts = []
            for k in range(7):
                ptr = struct.unpack("<Q", ctypes.string_at(base + d.offset + 8 * k, 8))[0]
                parts.append(ctypes.string_at(ptr, 8 * n) if (ptr and n) else b"")
            raw = b"".join(parts)
        else:
            ptr = struct.unpack("<Q", ctypes.string_at(base + d.offset, 8))[0]
            n = struct.unpack("<I", ctypes.string_at(base + d.offset_N, 4))[0]
            raw = ctypes.string_at(ptr, n * d.element_size) if (ptr and n) else b""
        if raw:
            out[d.type] = mask_field(d.type, raw)
    return out


def S(sim, mask=True, drop=()):
    """field-id -> payload of the live simulation (pointer members masked)."""
    return S_of_bytes(save_bytes(sim), mask, drop)


def S_of_bytes(b, mask=True, drop=()):
    header, fields, pos, ok = parse_stream(b)
    if not ok:
        raise ValueError("stream does not parse")
    out = {}
    for typ, payload in fields:
        if typ in drop:
            continue
        if typ in out:
            raise ValueError("field %d twice in stream" % typ)
        out[typ] = mask_field(typ, payload) if mask else payload
    return out


def S_diff(a, b):
    """list of field ids (with names) that differ between two S views"""
    out = []
    for k in sorted(set(a) | set(b)):
        if a.get(k) != b.get(k):
            out.append(k)
    return out


_names = None


def field_names():
    global _names
    if _names is None:
        _names = {}
        try:
            from rebound.binary_field_descriptor import BinaryFieldDescriptor
            arr = (BinaryFieldDescriptor * 400).in_dll(L, "reb_binary_field_descriptor_list")
            for d in arr:
                _names[d.type] = d.name.decode()
                if d.name == b"end":
                    break
        except Exception:
            pass
    return _names


def describe_fields(ids):
    n = field_names()
    return ["%d:%s" % (i, n.get(i, "?")) for i in ids]


def S_hex(s):
    """JSON-able digest of an S view"""
    import hashlib
    h = hashlib.blake2b(digest_size=12)
    for k in sorted(s):
        h.update(struct.pack("<IQ", k, len(s[k])))
        h.update(s[k])
    return h.hexdigest()


PFIELDS = ("x", "y", "z", "vx", "vy", "vz", "m", "r")


def T(sim):
    """trajectory view: t, N and raw particle bytes with pointers masked"""
    n = sim.N
    raw = string_at(ctypes.cast(sim._particles, c_void_p).value, n * PART.size) if n else b""
    return (struct.pack("<d", sim.t), n, _mask_ranges(raw, PART.size, PART_PTR_RANGES))


def T_digest(sim):
    import hashlib
    t = T(sim)
    return hashlib.blake2b(t[0] + struct.pack("<I", t[1]) + t[2], digest_size=12).hexdigest()


def particles_raw(sim):
    n = sim.N
    return string_at(ctypes.cast(sim._particles, c_void_p).value, n * PART.size) if n else b""


class quiet:
    """context manager: collect warnings instead of printing"""

    def __enter__(self):
        self.cm = warnings.catch_warnings(record=True)
        self.w = self.cm.__enter__()
        warnings.simplefilter("always")
        return self

    def __exit__(self, *a):
        self.cm.__exit__(*a)
        self.messages = [str(x.message) for x in self.w]
        return False


def setf_ptr(sim, path, value):
    off, size, kind, decl = SIM.m[path]
    ctypes.memmove(addr(sim) + off, struct.pack("<Q", value or 0), 8)


def getf_ptr(sim, path):
    off, size, kind, decl = SIM.m[path]
    return struct.unpack("<Q", string_at(addr(sim) + off, 8))[0]


# ---- recording heartbeat ---------------------------------------------------------------------------
def hb_attach(sim):
    fn = ctypes.cast(L.verif_heartbeat, c_void_p).value
    setf_ptr(sim, "heartbeat", fn)


def hb_attach_twophase(sim):
    fn = ctypes.cast(L.verif_heartbeat_twophase, c_void_p).value
    setf_ptr(sim, "heartbeat", fn)


def hb_detach(sim):
    setf_ptr(sim, "heartbeat", 0)


def hb_reset():
    L.verif_hb_reset()


def hb_take():
    """-> list of dict(steps_done,t,dt,dt_last_done,status,N) for every boundary reached"""
    n = L.verif_hb_count()
    out = []
    sd, t, dt, dld, st, N = c_uint64(), ctypes.c_double(), ctypes.c_double(), ctypes.c_double(), c_int(), ctypes.c_uint()
    for i in range(n):
        L.verif_hb_get(i, byref(sd), byref(t), byref(dt), byref(dld), byref(st), byref(N))
        out.append(dict(steps_done=sd.value, t=t.value, dt=dt.value, dt_last_done=dld.value, status=st.value, N=N.value))
    if L.verif_hb_overflow():
        raise RuntimeError("harness: heartbeat log overflow")
    L.verif_hb_reset()
    return out


def dbits(x):
    return struct.pack("<d", x)


def tree_check(sim, check_mass=False):
    """-> (problems, first message, leaves, cells, shape hash)"""
    msg = ctypes.create_string_buffer(400)
    out = (c_uint64 * 4)()
    n = L2.verif_tree_check(byref(sim), int(check_mass), msg, 400, out)
    return n, msg.value.decode("ascii", "replace"), out[0], out[1], out[2]


def canon_particle_order(s):
    """S view with the particle records sorted: for tree configurations, where the library documents that
    particles are re-ordered (swap-removal and re-insertion when they change cells)"""
    if F_PARTICLES in s:
        b = s[F_PARTICLES]
        recs = sorted(b[i:i + PART.size] for i in range(0, len(b), PART.size))
        s = dict(s)
        s[F_PARTICLES] = b"".join(recs)
    return s


def integrate_keeping_dt_last_done(sim, tmax, exact_finish_time):
    """counterfactual: integrate(), but with the persisted dt_last_done put back right after integrate() zeroed it"""
    L2.verif_hb_restore_dt_last_done.argtypes = [ctypes.c_double]
    L2.verif_hb_restore_dt_last_done(sim.dt_last_done)
    old = getf_ptr(sim, "heartbeat")
    setf_ptr(sim, "heartbeat", ctypes.cast(L2.verif_heartbeat_dld, c_void_p).value)
    try:
        sim.integrate(tmax, exact_finish_time=exact_finish_time)
    finally:
        setf_ptr(sim, "heartbeat", old)


def drop_flagged(s):
    """S view without particles that are flagged for deferred removal (y == NaN in a tree simulation): they are logically gone and the
    next tree update - or a restore - drops them"""
    if F_PARTICLES not in s:
        return s
    b = s[F_PARTICLES]
    oy = PART.m["y"][0]
    recs = [b[i:i + PART.size] for i in range(0, len(b), PART.size)]
    keep = [r for r in recs if struct.unpack_from("<d", r, oy)[0] == struct.unpack_from("<d", r, oy)[0]]
    if len(keep) == len(recs):
        return s
    s = dict(s)
    s[F_PARTICLES] = b"".join(keep)
    if 4 in s:
        s[4] = struct.pack("<I", len(keep))
    return s
