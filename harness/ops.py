"""History operations shared by the history-shaped properties (C05, C06, C09, C17).

Ops are plain JSON-able records; references to live objects are indices *modulo the current
population*, resolved at execution time, so any sub-list of an op list is still a valid
program (the precondition for delta debugging).
"""
import ctypes
import math

from . import simgen


class OpFailed(Exception):
    """the library rejected the op with an error message (RuntimeError from the Python layer)"""


def steps_of(ops):
    return sum(o.get("n", 0) for o in ops if o["op"] in ("steps",))


def apply(rebound, rb, sim, cfg, op):
    """Apply one op. Returns a small result record (for digests)."""
    k = op["op"]
    try:
        sim.process_messages()      # a stale error message left by an earlier call must not be blamed on this op
    except RuntimeError:
        pass
    if k in EDITS:
        # the documented protocol of a careful user when safe_mode is off: synchronise before touching
        # particles / switching, and ask for the cached coordinates to be recalculated afterwards
        # keep_unsynchronized means "outputs only, edits are discarded": it is switched off before editing
        sim.ri_whfast.keep_unsynchronized = 0
        sim.ri_saba.keep_unsynchronized = 0
        if sim.N:
            sim.synchronize()
        try:
            return _apply(rebound, rb, sim, cfg, op)
        finally:
            sim.ri_whfast.recalculate_coordinates_this_timestep = 1
            sim.ri_mercurius.recalculate_coordinates_this_timestep = 1
            sim.ri_mercurius.recalculate_r_crit_this_timestep = 1
            sim.ri_janus.recalculate_integer_coordinates_this_timestep = 1
    return _apply(rebound, rb, sim, cfg, op)


EDITS = {"grow_radius", "add", "remove", "remove_hash", "remove_all", "move", "add_variation", "megno", "switch", "reset_integrator", "signed_zero"}


def _apply(rebound, rb, sim, cfg, op):
    k = op["op"]
    if k in ("steps", "integrate") and sim.N > 0 and sim.N_active == 0:
        return "skip"           # "no active particle at all" is a degenerate set-up several integrators do not survive
    if k in ("steps", "integrate") and sim.N - sim.N_var > 0 and sim.integrator in ("trace", "mercurius") and not sim.particles[0].m > 0.0:
        return "skip"           # hybrid integrators need a massive central body at index 0 (a test particle swapped there by an unsorted removal makes the encounter step spin for ever)
    if k == "integrate" and sim.N == 0:
        return "skip"           # empty simulation: the NO_PARTICLES exit is C08's subject (with BS it also depends on whether the internal ODE exists yet)
    if k == "steps":
        if sim.N == 0:
            return "skip"       # only integrate() promises a clean NO_PARTICLES exit; stepping an empty simulation is user error
        sim.steps(op["n"])
    elif k == "integrate":
        sgn = 1.0 if sim.dt > 0 else -1.0
        tgt = sim.t + sgn * op["span"]
        ef = op.get("exact", None)
        if ef is None:
            sim.integrate(tgt)
        else:
            sim.integrate(tgt, exact_finish_time=ef)
    elif k == "sync":
        sim.synchronize()
    elif k == "add":
        if sim.N_var:
            return "skip"        # real particles must precede variational ones; adding afterwards is user error
        p = op["p"]
        kw = {q: p[q] for q in ("m", "x", "y", "z", "vx", "vy", "vz", "r") if q in p}
        if "hash" in p:
            kw["hash"] = p["hash"]
        sim.add(**kw)
    elif k == "remove":
        if sim.N - sim.N_var <= 0:
            return "skip"
        if sim.N_var:
            return "skip"
        i = op["pick"] % sim.N
        sim.remove(index=i, keep_sorted=bool(op.get("keep_sorted", 1)))
    elif k == "remove_hash":
        if sim.N == 0 or sim.N_var:
            return "skip"
        i = op["pick"] % sim.N
        h = sim.particles[i].hash
        sim.remove(hash=h, keep_sorted=bool(op.get("keep_sorted", 1)))
    elif k == "remove_all":
        if sim.N_var_config:
            return "skip"       # remove_all leaves N_var_config / var_config dangling: covered by C14, kept out of the other histories
        # documented way to empty a simulation from Python
        rb.L.reb_simulation_remove_all_particles(ctypes.byref(sim))
    elif k == "switch":
        if sim.N_var and not var_ok(sim, op["integrator"], op.get("opts")):
            return "skip"          # the library calls exit() for variational particles + unsupported gravity
        if op["integrator"] == "trace" and sim.dt < 0:
            return "skip"          # TRACE does not support backward integration
        if sim.integrator == "bs" and op["integrator"] != "bs":
            # BS leaves its N-body ODE registered; a later step of another integrator would integrate that stale ODE
            # (heap overflow once N has grown - observed, outside the listed properties). Reset first, like a careful user.
            sim.reset_integrator()
        sim.integrator = op["integrator"]
        if op["integrator"] in ("whfast", "saba"):
            # start from the documented defaults: options left over from an earlier WHFast phase (e.g. a corrector) may be
            # invalid for the coordinates chosen now; the library reports an error for such combinations and carries on
            for path in ("ri_whfast.corrector", "ri_whfast.corrector2", "ri_whfast.kernel", "ri_whfast.coordinates"):
                rb.setf(sim, path, 0)
        # integrators overwrite r->gravity (JACOBI / MERCURIUS / TRACE / NONE); a careful user resets it when switching
        if op["integrator"] not in ("mercurius", "trace"):
            sim.gravity = "none" if op["integrator"] == "sei" else op.get("gravity", "basic")
        for path, val in sorted((op.get("opts") or {}).items()):
            rb.setf(sim, path, val)
        cfg["integrator"] = op["integrator"]
    elif k == "reset_integrator":
        sim.reset_integrator()
        sim.gravity = "basic"       # integrators overwrite r->gravity; reset_integrator does not restore it
        cfg["integrator"] = "ias15"
    elif k == "set":
        if op["path"] == "ri_whfast.corrector" and rb.getf(sim, "ri_whfast.coordinates") not in (0, 3):
            return "skip"       # correctors are only defined for Jacobi / barycentric coordinates (the library reports an error)
        if op["path"] == "ri_whfast.corrector" and sim.N_var:
            return "skip"
        rb.setf(sim, op["path"], op["value"])
    elif k == "setattr":
        setattr(sim, op["name"], op["value"])
    elif k == "move":
        if sim.N == 0:
            return "skip"
        nreal = sim.N - sim.N_var
        hs = sorted((sim.particles[i].hash.value, i) for i in range(nreal))
        if len(set(h for h, i in hs)) == nreal:
            p = sim.particles[hs[op["pick"] % nreal][1]]      # by rank of hash: the array order is unspecified when a tree is in use
        else:
            p = sim.particles[op["pick"] % sim.N]
        p.x += op.get("dx", 0.0)
        p.vy += op.get("dvy", 0.0)
        p.m *= op.get("fm", 1.0)
    elif k == "signed_zero":
        # a user (or a symmetric initial condition) may store +0.0 or -0.0: numerically equal, different bit patterns
        if sim.N - sim.N_var <= 0:
            return "skip"
        p = sim.particles[op["pick"] % (sim.N - sim.N_var)]
        setattr(p, op.get("coord", "vz"), -0.0 if op.get("neg", 1) else 0.0)
    elif k == "add_variation":
        if sim.N - sim.N_var < 2 or not var_ok(sim, sim.integrator, None, current=True):
            return "skip"
        v = sim.add_variation()
        simgen.remember_var(sim, v)
        v.particles[0].x = 1.0
    elif k == "megno":
        if sim.N_var or sim.N < 2 or not var_ok(sim, sim.integrator, None, current=True) or sim.integrator == "bs":
            return "skip"
        sim.init_megno(seed=op.get("seed", 3))
    elif k == "grow_radius":
        if sim.N - sim.N_var <= 0:
            return "skip"
        # (by hash rank among the live particles: the array order and the presence of particles flagged for deferred removal differ between an original and
        #  its restored copy in tree configurations)
        live = sorted((sim.particles[i].hash.value, i) for i in range(sim.N - sim.N_var) if sim.particles[i].y == sim.particles[i].y)
        if not live:
            return "skip"
        p = sim.particles[live[op["pick"] % len(live)][1]]
        p.r = p.r * op.get("factor", 2.0)
    elif k == "set_lrescale":
        # documented user-visible member of a variational configuration (docs/chaos.md); -1 disables rescaling
        n = rb.getf(sim, "N_var_config")
        if not n:
            return "skip"
        base = rb.getf_ptr(sim, "var_config")
        i = op.get("pick", 0) % n
        off = rb.VC.m["lrescale"][0]
        import struct as _st
        ctypes.memmove(base + i * rb.VC.size + off, _st.pack("<d", op["value"]), 8)
    elif k == "display_settings":
        rb.L.reb_simulation_add_display_settings(ctypes.byref(sim))
    elif k == "clock_jump":
        rb.clock_jump(op["us"])
    elif k == "energy":
        sim.energy()
    elif k == "angular_momentum":
        sim.angular_momentum()
    elif k == "orbits":
        if sim.N - sim.N_var >= 2:
            try:
                sim.orbits()
            except (ValueError, ZeroDivisionError):
                pass
    elif k == "com":
        sim.com()
    elif k == "noop":
        pass
    else:
        raise ValueError("unknown op %r" % (op,))
    return "ok"


def var_ok(sim, integrator, opts, current=False):
    """variational particles are only generated for combinations the library supports
    (otherwise gravity.c calls exit(): 'Variational gravity calculation not yet implemented')."""
    if integrator not in ("ias15", "leapfrog", "bs", "whfast"):
        return False
    if current:
        if sim.gravity not in ("basic", "none") and not (integrator == "whfast" and sim.gravity == "jacobi"):
            return False
        if integrator == "whfast" and (sim.ri_whfast.coordinates != "jacobi" or sim.ri_whfast.kernel != "default"):
            return False
    else:
        o = opts or {}
        if integrator == "whfast" and (o.get("ri_whfast.coordinates", 0) != 0 or o.get("ri_whfast.kernel", 0) != 0):
            return False
    return True


def random_particle(rng, scale=1.0, m=None, r=0.0, hash_=None):
    a = scale * rng.uniform(0.7, 6.0)
    x, y, z, vx, vy, vz = simgen.kepler_to_cart(1.0, 1.0, a, rng.uniform(0, 0.2), rng.uniform(0, 0.1), rng.uniform(0, 6.28), rng.uniform(0, 6.28), rng.uniform(0, 6.28))
    p = dict(m=(rng.loguniform(1e-8, 1e-4) if m is None else m), x=x, y=y, z=z, vx=vx, vy=vy, vz=vz, r=r)
    if hash_ is not None:
        p["hash"] = hash_
    return p
