"""Seeded configuration generator and builder for simulations (swarm style: every knob the
code branches on is drawn per run).  A config is a plain JSON-able dict with *explicit*
particle coordinates, so a replay file does not depend on this generator.
"""
import math

INTEGRATORS_ALL = ["ias15", "whfast", "saba", "eos", "leapfrog", "janus", "mercurius", "trace", "bs", "sei", "none"]
DEFERRED = ["whfast", "saba", "mercurius", "eos"]          # can postpone their last half step
KEEP_UNSYNC = ["whfast", "saba"]

SABA_TYPES = [0x0, 0x1, 0x2, 0x3, 0x100, 0x101, 0x102, 0x103, 0x200, 0x201, 0x202, 0x203, 0x4, 0x5, 0x6, 0x7, 0x8, 0x9]
EOS_TYPES = list(range(9))
CORRECTORS = [0, 3, 5, 7, 11, 17]


def kepler_to_cart(G, M, a, e, inc, Omega, omega, f):
    """relative position/velocity of an orbit around mass M (pure python, plain formulas)"""
    r = a * (1 - e * e) / (1 + e * math.cos(f))
    v0 = math.sqrt(G * M / (a * (1 - e * e)))
    cO, sO, co, so, cf, sf, ci, si = math.cos(Omega), math.sin(Omega), math.cos(omega), math.sin(omega), math.cos(f), math.sin(f), math.cos(inc), math.sin(inc)
    x = r * (cO * (co * cf - so * sf) - sO * (so * cf + co * sf) * ci)
    y = r * (sO * (co * cf - so * sf) + cO * (so * cf + co * sf) * ci)
    z = r * (so * cf + co * sf) * si
    vx = v0 * ((e + cf) * (-ci * co * sO - cO * so) - sf * (co * cO - ci * so * sO))
    vy = v0 * ((e + cf) * (ci * co * cO - sO * so) - sf * (co * sO + ci * so * cO))
    vz = v0 * ((e + cf) * co * si - sf * si * so)
    return x, y, z, vx, vy, vz


def planetary(rng, n, G=1.0, close=False, radii=False, hashes=True, ecc_max=0.3):
    """star + n-1 planets; 'close' makes neighbouring orbits nearly cross (hybrid integrators switch)"""
    ps = [dict(m=1.0, x=0.0, y=0.0, z=0.0, vx=0.0, vy=0.0, vz=0.0, r=(0.005 if radii else 0.0))]
    a = rng.uniform(0.8, 1.2)
    for i in range(1, n):
        m = rng.loguniform(1e-7, 3e-3)
        e = rng.uniform(0, ecc_max)
        inc = rng.uniform(0, 0.2)
        x, y, z, vx, vy, vz = kepler_to_cart(G, 1.0, a, e, inc, rng.uniform(0, 6.28), rng.uniform(0, 6.28), rng.uniform(0, 6.28))
        ps.append(dict(m=m, x=x, y=y, z=z, vx=vx, vy=vy, vz=vz, r=(rng.loguniform(1e-5, 2e-3) if radii else 0.0)))
        a *= rng.uniform(1.01, 1.08) if close else rng.uniform(1.35, 1.9)
    # move to centre of mass
    mt = sum(p["m"] for p in ps)
    for k in ("x", "y", "z", "vx", "vy", "vz"):
        c = sum(p["m"] * p[k] for p in ps) / mt
        for p in ps:
            p[k] -= c
    if hashes:
        for i, p in enumerate(ps):
            p["hash"] = 1000 + i
    return ps


def cloud(rng, n, box, vmax, rmin, rmax, m=1e-6):
    ps = []
    for i in range(n):
        ps.append(dict(m=m * rng.uniform(0.5, 2), x=rng.uniform(-box / 2, box / 2) * 0.98, y=rng.uniform(-box / 2, box / 2) * 0.98,
                       z=rng.uniform(-box / 2, box / 2) * 0.98, vx=rng.uniform(-vmax, vmax), vy=rng.uniform(-vmax, vmax),
                       vz=rng.uniform(-vmax, vmax), r=rng.loguniform(rmin, rmax), hash=1000 + i))
    return ps


def integrator_opts(rng, integ, nondefault_p=0.7, allow_unsafe=True, var=False):
    """random valid option vector for an integrator: {layout path: value}"""
    o = {}
    nd = lambda: rng.chance(nondefault_p)
    if integ == "whfast":
        coords = rng.choice([0, 0, 1, 2, 3]) if nd() and not var else 0
        o["ri_whfast.coordinates"] = coords
        if coords == 0 and nd() and not var:
            o["ri_whfast.kernel"] = rng.choice([0, 1, 2, 3])
        if coords in (0, 3) and nd():
            o["ri_whfast.corrector"] = rng.choice(CORRECTORS)
            if coords == 0 and rng.chance(0.3) and o.get("ri_whfast.kernel", 0) in (0, 3, 1, 2):
                o["ri_whfast.corrector2"] = 1
        if allow_unsafe and nd():
            o["ri_whfast.safe_mode"] = 0
            if rng.chance(0.5):
                o["ri_whfast.keep_unsynchronized"] = 1
    elif integ == "saba":
        o["ri_whfast.coordinates"] = 0      # SABA requires Jacobi coordinates
        o["ri_saba.type"] = rng.choice(SABA_TYPES) if nd() else 0x6
        if allow_unsafe and nd():
            o["ri_saba.safe_mode"] = 0
            if rng.chance(0.5):
                o["ri_saba.keep_unsynchronized"] = 1
    elif integ == "eos":
        if nd():
            o["ri_eos.phi0"] = rng.choice(EOS_TYPES)
            o["ri_eos.phi1"] = rng.choice(EOS_TYPES)
            o["ri_eos.n"] = rng.choice([1, 2, 3, 5])
        if allow_unsafe and nd():
            o["ri_eos.safe_mode"] = 0
    elif integ == "ias15":
        if nd():
            o["ri_ias15.adaptive_mode"] = rng.choice([0, 1, 2, 3])
            o["ri_ias15.epsilon"] = rng.choice([1e-9, 1e-8, 1e-7, 0.0, 1e-10])
            o["ri_ias15.min_dt"] = rng.choice([0.0, 1e-4, 1e-6])
    elif integ == "mercurius":
        if nd():
            o["ri_mercurius.r_crit_hill"] = rng.choice([3.0, 2.0, 4.0, 5.5])
        if allow_unsafe and nd():
            o["ri_mercurius.safe_mode"] = 0
    elif integ == "trace":
        if nd():
            o["ri_trace.r_crit_hill"] = rng.choice([3.0, 2.0, 4.0])
            o["ri_trace.peri_crit_eta"] = rng.choice([1.0, 0.5, 2.0])
            o["ri_trace.peri_mode"] = rng.choice([0, 1, 2])
    elif integ == "bs":
        if nd():
            o["ri_bs.eps_abs"] = rng.choice([1e-8, 1e-6, 1e-10])
            o["ri_bs.eps_rel"] = rng.choice([1e-8, 1e-6, 1e-10])
            o["ri_bs.min_dt"] = 0.0   # a non-zero min_dt can make BS retry a rejected step forever (observed; outside the listed properties)
            o["ri_bs.max_dt"] = rng.choice([0.0, 0.5])
    elif integ == "janus":
        if nd():
            o["ri_janus.order"] = rng.choice([2, 4, 6, 8, 10])
            o["ri_janus.scale_pos"] = rng.choice([1e-16, 1e-14, 1e-12])
            o["ri_janus.scale_vel"] = rng.choice([1e-16, 1e-14, 1e-12])
    elif integ == "sei":
        o["ri_sei.OMEGA"] = rng.choice([1.0, 0.5, 2.0])
        if nd():
            o["ri_sei.OMEGAZ"] = rng.choice([1.0, 1.5])
    return o


def gen_planetary_config(rng, integrators=None, nmin=2, nmax=7, allow_unsafe=True, allow_var=True,
                         allow_collisions=True, allow_tp=True):
    integ = rng.choice(integrators or INTEGRATORS_ALL)
    n = rng.randint(nmin, nmax)
    close = integ in ("mercurius", "trace", "ias15", "bs") and rng.chance(0.5)
    radii = allow_collisions and integ not in ("janus", "sei") and rng.chance(0.35)
    G = rng.choice([1.0, 1.0, 1.0, 39.476926421373, 6.674e-11 * 0 + 0.5])
    ps = planetary(rng, n, G=G, close=close, radii=radii)
    cfg = dict(integrator=integ, G=G, particles=ps, gravity="basic", collision="none", boundary="none", opts={})
    var = False
    if allow_var and integ in ("ias15", "whfast", "bs", "leapfrog") and rng.chance(0.2):
        # only combinations the code accepts
        if integ in ("ias15", "bs", "leapfrog"):
            var = True
            cfg["var"] = [dict(order=1, tp=-1)]
            if rng.chance(0.4) and integ != "bs":
                cfg["var"].append(dict(order=1, tp=-1))
                cfg["var"].append(dict(order=2, first=0, second=1, tp=-1))
            if integ == "ias15" and rng.chance(0.3):
                cfg["var"] = [dict(order=1, tp=rng.randint(1, n - 1))] if n > 1 else cfg["var"]
        elif integ == "whfast":
            var = True
            cfg["var"] = [dict(order=1, tp=-1)]
    if allow_var and not var and integ in ("ias15", "whfast", "leapfrog") and rng.chance(0.12):
        cfg["megno"] = True
        var = True
    cfg["opts"] = integrator_opts(rng, integ, allow_unsafe=allow_unsafe, var=var)
    period = 2 * math.pi / math.sqrt(G)
    cfg["dt"] = period * rng.choice([1 / 20, 1 / 37.3, 1 / 60, 1 / 100, 1 / 13.7])
    if integ in ("ias15", "bs"):
        cfg["dt"] = period * rng.choice([1e-2, 1e-3, 0.05])
    if rng.chance(0.15) and integ != "trace":      # TRACE does not support backward integration (documented TODO in the source)
        cfg["dt"] = -cfg["dt"]
    if integ in ("ias15", "leapfrog", "bs", "none") and not var and rng.chance(0.25):
        cfg["gravity"] = rng.choice(["compensated", "basic"])
    if allow_tp and n >= 3 and not var and integ not in ("janus",) and rng.chance(0.3):
        cfg["N_active"] = rng.randint(1, n - 1)
        cfg["testparticle_type"] = rng.choice([0, 1])
        if cfg["testparticle_type"] == 0:
            for p in ps[cfg["N_active"]:]:
                p["m"] = 0.0       # type-0 test particles must be massless (the library warns about "unexpected behaviour" otherwise)
    if radii:
        cfg["collision"] = "direct" if integ in ("mercurius", "trace") or rng.chance(0.7) else "line"
        cfg["collision_resolve"] = rng.choice(["merge", "hardsphere"])
        if integ in ("janus",):
            cfg["collision"] = "none"
    if rng.chance(0.25):
        cfg["softening"] = rng.choice([1e-4, 1e-3])
    if rng.chance(0.2):
        cfg["exit_max_distance"] = 1e3
    if rng.chance(0.15):
        cfg["track_energy_offset"] = 1
    if rng.chance(0.15):
        cfg["units"] = True
    if rng.chance(0.15):
        cfg["force"] = "drag"       # velocity dependent C additional force (re-attached after load)
    if integ == "sei":
        cfg["gravity"] = "none"
        cfg["force"] = None
    cfg["rand_seed"] = rng.randint(1, 2**31 - 1)
    if rng.chance(0.2):
        cfg["exact_finish_time"] = 0
    return cfg


def gen_compact_config(rng, integrators=("trace", "trace", "mercurius")):
    """tightly packed planets with physical radii under a hybrid integrator with direct collision search and mergers: close encounters
    every few steps, a merger within the first few hundred steps, step rejections (TRACE) afterwards"""
    integ = rng.choice(list(integrators))
    n = rng.randint(5, 8)
    ps = [dict(m=1.0, x=0.0, y=0.0, z=0.0, vx=0.0, vy=0.0, vz=0.0, r=0.0)]
    for i in range(1, n):
        a = 1.0 + 0.12 * (i - 1) + rng.uniform(-0.02, 0.02)
        x, y, z, vx, vy, vz = kepler_to_cart(1.0, 1.0, a, rng.uniform(0, 0.1), rng.uniform(0, 0.02), rng.uniform(0, 6.28), rng.uniform(0, 6.28), rng.uniform(0, 6.28))
        ps.append(dict(m=rng.choice([1e-4, 3e-4, 1e-3]), x=x, y=y, z=z, vx=vx, vy=vy, vz=vz, r=rng.choice([2e-3, 5e-3, 1e-2])))
    mt = sum(p["m"] for p in ps)
    for k in ("x", "y", "z", "vx", "vy", "vz"):
        c = sum(p["m"] * p[k] for p in ps) / mt
        for p in ps:
            p[k] -= c
    for i, p in enumerate(ps):
        p["hash"] = 1000 + i
    return dict(integrator=integ, G=1.0, particles=ps, gravity="basic", collision="direct", collision_resolve="merge", boundary="none", opts={}, dt=0.05,
                rand_seed=rng.randint(1, 2**31 - 1), compact=True)


# ----------------------------------------------------------------------------------------------
def build(rebound, rb, cfg):
    """Construct the simulation described by cfg on the given rebound module."""
    sim = rebound.Simulation()
    sim.G = cfg.get("G", 1.0)
    if cfg.get("units"):
        sim.python_unit_l, sim.python_unit_m, sim.python_unit_t = 7, 11, 13
    box = cfg.get("box")
    if box:
        sim.configure_box(box["size"], box.get("nx", 1), box.get("ny", 1), box.get("nz", 1))
    # modules first: particles are inserted into the tree when they are added
    sim.integrator = cfg["integrator"]
    if cfg.get("gravity") and cfg["integrator"] not in ("mercurius", "trace"):
        sim.gravity = cfg["gravity"]
    if cfg.get("collision", "none") != "none":
        sim.collision = cfg["collision"]
        if cfg.get("collision_resolve"):
            sim.collision_resolve = cfg["collision_resolve"]
    if cfg.get("boundary", "none") != "none":
        sim.boundary = cfg["boundary"]
    for p in cfg["particles"]:
        kw = {k: p[k] for k in ("m", "x", "y", "z", "vx", "vy", "vz", "r") if k in p}
        if "hash" in p:
            kw["hash"] = p["hash"]
        sim.add(**kw)
    ng = cfg.get("nghost")
    if ng:
        sim.N_ghost_x, sim.N_ghost_y, sim.N_ghost_z = ng
    sim.dt = cfg["dt"]
    for k in ("softening", "exit_max_distance", "exit_min_distance", "track_energy_offset", "exact_finish_time",
              "testparticle_type", "rand_seed", "collision_resolve_keep_sorted", "minimum_collision_velocity",
              "opening_angle2", "testparticle_hidewarnings"):
        if k in cfg and cfg[k] is not None:
            setattr(sim, k, cfg[k])
    if "N_active" in cfg:
        sim.N_active = cfg["N_active"]
    for path, val in sorted((cfg.get("opts") or {}).items()):
        rb.setf(sim, path, val)
    if cfg.get("coefficient_of_restitution") is not None:
        pass
    for v in cfg.get("var") or []:
        kw = dict(order=v["order"])
        if v.get("tp", -1) >= 0:
            kw["testparticle"] = v["tp"]
        if v["order"] == 2:
            vs = sim_var_list(sim)
            kw["first_order"] = vs[v["first"]]
            kw["first_order_2"] = vs[v["second"]]
        var = sim.add_variation(**kw)
        remember_var(sim, var)
        # deterministic non-trivial initial variation
        if v["order"] == 1:
            vp = var.particles[0 if v.get("tp", -1) >= 0 else min(1, sim.N - 1)]
            vp.x = 1.0
    if cfg.get("megno"):
        sim.init_megno(seed=cfg.get("rand_seed", 7))
    attach_callbacks(rebound, rb, sim, cfg)
    return sim


def remember_var(sim, var):
    # kept on the object itself (an id()-keyed registry would leak between runs when ids are reused)
    if not hasattr(sim, "_verif_vars"):
        sim._verif_vars = []
    sim._verif_vars.append(var)


def sim_var_list(sim):
    return getattr(sim, "_verif_vars", [])


def attach_callbacks(rebound, rb, sim, cfg):
    """(re-)attach the callbacks a config uses — the user's duty after a restore."""
    if cfg.get("force") == "drag":
        import ctypes
        fn = ctypes.cast(rb.L.verif_force_drag, ctypes.c_void_p).value
        rb.setf_ptr(sim, "additional_forces", fn)
        sim.force_is_velocity_dependent = 1
    if cfg.get("collision", "none") != "none" and cfg.get("collision_resolve"):
        sim.collision_resolve = cfg["collision_resolve"]
    if cfg.get("ptm") in ("pre", "post"):
        import ctypes
        fn = ctypes.cast(rb.L.verif_ptm_damp, ctypes.c_void_p).value
        rb.setf_ptr(sim, "%s_timestep_modifications" % cfg["ptm"], fn)


def gen_box_config(rng, nmax=60, allow_shear=True):
    """particle cloud in a box of root cells: tree gravity / tree collisions / periodic, shear or open boundaries"""
    nx, ny, nz = rng.choice([(1, 1, 1), (2, 1, 1), (2, 2, 1), (2, 2, 2), (3, 1, 2), (1, 3, 1)])
    size = rng.choice([1.0, 2.0, 10.0])
    boundary = rng.choice(["periodic", "open", "shear", "none"] if allow_shear else ["periodic", "open", "none"])
    integ = "sei" if boundary == "shear" and rng.chance(0.7) else rng.choice(["leapfrog", "leapfrog", "ias15" if boundary in ("none", "open") else "leapfrog", "leapfrog"])
    gravity = rng.choice(["tree", "none", "basic"]) if integ != "sei" else rng.choice(["none", "tree"])
    collision = rng.choice(["none", "tree", "direct", "line", "linetree"])
    if integ == "ias15":
        # IAS15 keeps per-index arrays; the tree re-orders particles: not a supported combination
        gravity = "basic"       # without forces IAS15's step size grows without bound and the periodic wrap loop no longer terminates
        collision = rng.choice(["none", "direct", "line"])
    n = rng.randint(2, nmax)
    L = size * min(nx, ny, nz)
    vmax = rng.choice([0.0, 0.1, 1.0]) * L
    ps = []
    for i in range(n):
        ps.append(dict(m=rng.loguniform(1e-9, 1e-5), x=rng.uniform(-0.49, 0.49) * size * nx, y=rng.uniform(-0.49, 0.49) * size * ny,
                       z=rng.uniform(-0.49, 0.49) * size * nz, vx=rng.uniform(-vmax, vmax), vy=rng.uniform(-vmax, vmax), vz=rng.uniform(-vmax, vmax),
                       r=(rng.loguniform(1e-4, 3e-2) * size if collision != "none" else 0.0), hash=1000 + i))
    cfg = dict(integrator=integ, G=rng.choice([1.0, 0.0]) if gravity == "none" else 1.0, particles=ps, gravity=gravity, collision=collision,
               boundary=boundary, box=dict(size=size, nx=nx, ny=ny, nz=nz), opts={}, dt=rng.choice([1e-3, 1e-2, 0.05]),
               rand_seed=rng.randint(1, 2**31 - 1))
    if collision != "none":
        cfg["collision_resolve"] = rng.choice(["merge", "hardsphere"])
        if cfg["collision_resolve"] == "merge" and collision in ("tree", "linetree"):
            cfg["collision_resolve_keep_sorted"] = 0
    if boundary in ("periodic", "shear"):
        cfg["nghost"] = rng.choice([[0, 0, 0], [1, 1, 0], [1, 1, 1], [2, 2, 0]])
    if integ == "sei":
        cfg["opts"] = {"ri_sei.OMEGA": 1.0}
    if gravity == "tree":
        cfg["opening_angle2"] = rng.choice([0.25, 0.5, 1.0])
        cfg["softening"] = 1e-3 * size
    return cfg
