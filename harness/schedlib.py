"""Python face of sim/sched.c (sched variant only)."""
import ctypes
import os
import select
from ctypes import c_int, c_uint64, c_double, c_char_p, c_size_t, c_void_p, POINTER, byref

from . import rb

L = rb.L2
L.verif_sched_begin.argtypes = [c_uint64, c_int, c_double, c_double, c_uint64]
L.verif_sched_add_client.argtypes = [c_uint64, c_int, c_char_p]
L.verif_sched_watch.argtypes = [c_void_p]
POL_RANDOM, POL_BIASED, POL_REPLAY, POL_NONE = 0, 1, 2, 3


class WOp(ctypes.Structure):
    _fields_ = [("kind", c_int), ("n", c_int), ("x", c_double)]


class WProg(ctypes.Structure):
    _fields_ = [("image", c_char_p), ("image_len", c_size_t), ("flags", c_int), ("ops", POINTER(WOp)), ("nops", c_int),
                ("archive_path", c_char_p), ("digests", POINTER(c_uint64)), ("ndig", c_int), ("capdig", c_int), ("error", c_int)]


W = dict(steps=1, integrate=2, copy=3, saveload=4, archive=5, diff=6, sync=7, create_free=8)


def begin(seed, policy, p=0.02, bias_p=0.3, tick_cap=20000000):
    L.verif_sched_begin(seed & (2**64 - 1), policy, p, bias_p, tick_cap)


def set_stall(p, us):
    """'slow or stalled node' fault: at each pre-emption point the running thread is parked for us microseconds of simulated time with probability p
    (x300 while another thread waits on a mutex or polls in a sleep loop)"""
    L.verif_sched_set_stall.argtypes = [ctypes.c_double, ctypes.c_int64]
    L.verif_sched_set_stall(float(p), int(us))


def stalls():
    L.verif_sched_stalls.restype = ctypes.c_uint64
    return int(L.verif_sched_stalls())


def end():
    L.verif_sched_end()


def set_replay(decisions):
    n = len(decisions)
    ticks = (c_uint64 * max(n, 1))(*[d[0] for d in decisions])
    tos = (c_int * max(n, 1))(*[d[1] for d in decisions])
    L.verif_sched_set_replay(ticks, tos, n)


def stats():
    o = (c_uint64 * 16)()
    L.verif_sched_stats(o)
    keys = ("ticks", "yields", "switches", "blocks", "clock_jumps", "mutex_contended", "mutex_handover", "digest", "decisions", "threads",
            "arrival_w0", "arrival_last_step", "arrival_after_loop", "arrival_paused", "arrival_in_sync", "arrival_w5")
    return dict(zip(keys, list(o)))


def decisions(cap=100000):
    ticks = (c_uint64 * cap)()
    fr = (c_int * cap)()
    to = (c_int * cap)()
    n = L.verif_sched_decisions(ticks, fr, to, cap)
    n = min(n, cap)
    return [(ticks[i], to[i]) for i in range(n)]


def add_client(at_tick, window, request):
    return L.verif_sched_add_client(int(at_tick), int(window), request)


def client_info(i):
    fd, dl, st = c_int(), c_int(), c_int()
    dt = c_uint64()
    L.verif_sched_client_info(i, byref(fd), byref(dl), byref(dt), byref(st))
    return dict(fd=fd.value, delivered=dl.value, tick=dt.value, status=st.value)


def read_response(fd):
    """read everything the server wrote for this client (the server side is closed by now)"""
    out = b""
    os.set_blocking(fd, False)
    while True:
        try:
            ch = os.read(fd, 1 << 16)
        except BlockingIOError:
            break
        if not ch:
            break
        out += ch
    return out


def run_workers(progs, concurrent):
    arr = (WProg * len(progs))(*progs)
    L.verif_run_workers(arr, len(progs), int(concurrent))
    return arr
